import SynKitModel.Net
/-!
# C20 — siphons, traps, Petri firing, pathway realizability (model of the code)

Mirrors `synkit/CRN/Petri/structure.py` (`_is_siphon_indices`, `_is_trap_indices`,
`_minimal_sets`, `find_siphons`, `find_traps`), `Petri/net.py` (`PetriNet.add_place`,
`add_transition`, `enabled`, `fire`, `marking_to_tuple`) and `Path/realizability.py`
(`build_petri_net_from_flow`, `is_realizable`).

The siphon/trap predicates follow the **repaired** code (draft fix 0003): the arcs of a reaction
node are its reactant arcs (`in_edges`) and its product arcs (`out_edges`).  The unrepaired code
walks `G.edges(r)` on a `DiGraph`, i.e. product arcs only; that variant is `isSiphonF17` /
`isTrapF17` below and is kept only for the negation witness in `Props/C20.lean`.
-/
namespace SynKit.Petri

/-! ## siphons and traps -/

/-- `_is_siphon_indices`: non-empty, and every reaction that produces a member (product arc,
`stoich > 0`) also consumes a member (reactant arc, `stoich > 0`). -/
def isSiphon (N : Net) (S : List Nat) : Bool :=
  !S.isEmpty && N.reactions.all fun r =>
    !(r.producesAny (N.labelsOf S)) || r.consumesAny (N.labelsOf S)

/-- `_is_trap_indices`: non-empty, and every reaction that consumes a member also produces one. -/
def isTrap (N : Net) (S : List Nat) : Bool :=
  !S.isEmpty && N.reactions.all fun r =>
    !(r.consumesAny (N.labelsOf S)) || r.producesAny (N.labelsOf S)

/-- The unrepaired predicate (defect F17): `G.edges(r)` lists product arcs only, so no reactant
arc is ever seen and "consumes" is always false. -/
def isSiphonF17 (N : Net) (S : List Nat) : Bool :=
  !S.isEmpty && N.reactions.all fun r => !(r.producesAny (N.labelsOf S)) || false

def isTrapF17 (N : Net) (S : List Nat) : Bool :=
  !S.isEmpty && N.reactions.all fun _ => !false || true

/-- `itertools.combinations(l, k)` in its own (lexicographic-by-position) order. -/
def combos {α : Type} : List α → Nat → List (List α)
  | _, 0 => [[]]
  | [], _ + 1 => []
  | x :: xs, k + 1 => (combos xs k).map (x :: ·) ++ combos xs (k + 1)

/-- `T.issubset(S)` on index sets. -/
def subsetB (T S : List Nat) : Bool := T.all fun a => S.contains a

/-- `_minimal_sets`: scan the candidates; skip one that contains a kept set, otherwise drop the
kept supersets and keep it. -/
def minimalSets (cands : List (List Nat)) : List (List Nat) :=
  cands.foldl (fun out S =>
    if out.any (fun T => subsetB T S) then out
    else (out.filter fun T => !subsetB S T) ++ [S]) []

/-- The candidate loop: `for k in range(1, max_size+1): for combo in combinations(range(n), k)`. -/
def candidates (pred : List Nat → Bool) (n maxSize : Nat) : List (List Nat) :=
  (List.range maxSize).flatMap fun k => (combos (List.range n) (k + 1)).filter pred

/-- `max_size=None` means `n_s`. -/
def findIdx (pred : List Nat → Bool) (n : Nat) (maxSize : Option Nat) : List (List Nat) :=
  minimalSets (candidates pred n (maxSize.getD n))

def findSiphonsIdx (N : Net) (maxSize : Option Nat) : List (List Nat) :=
  findIdx (isSiphon N) N.nSpecies maxSize

def findTrapsIdx (N : Net) (maxSize : Option Nat) : List (List Nat) :=
  findIdx (isTrap N) N.nSpecies maxSize

/-- `find_siphons`: the minimal index sets, turned into label sets. -/
def findSiphons (N : Net) (maxSize : Option Nat) : List (List String) :=
  (findSiphonsIdx N maxSize).map N.labelsOf

def findTraps (N : Net) (maxSize : Option Nat) : List (List String) :=
  (findTrapsIdx N maxSize).map N.labelsOf

/-- Brute-force specification used by the `spec.*` driver command: `X` (a sublist of `range n`)
is non-empty, satisfies `pred`, and no non-empty proper sub-list does. -/
def isMinimalB (pred : List Nat → Bool) (X : List Nat) : Bool :=
  !X.isEmpty && pred X &&
    (List.range X.length).all fun k =>
      (combos X k).all fun Y => Y.isEmpty || !pred Y

/-! ### specification side (what the property demands, on index sets) -/

/-- Reaction `r` produces species number `i` (a product arc with positive coefficient). -/
def Produces (N : Net) (r : Rxn) (i : Nat) : Prop :=
  ∃ s c, N.species[i]? = some s ∧ (s, c) ∈ r.products ∧ 0 < c

/-- Reaction `r` consumes species number `i`. -/
def Consumes (N : Net) (r : Rxn) (i : Nat) : Prop :=
  ∃ s c, N.species[i]? = some s ∧ (s, c) ∈ r.reactants ∧ 0 < c

/-- Siphon: non-empty, and every reaction producing a member also consumes a member. -/
def IsSiphon (N : Net) (S : List Nat) : Prop :=
  S ≠ [] ∧ ∀ r ∈ N.reactions, (∃ i ∈ S, Produces N r i) → ∃ i ∈ S, Consumes N r i

/-- Trap: non-empty, and every reaction consuming a member also produces a member. -/
def IsTrap (N : Net) (S : List Nat) : Prop :=
  S ≠ [] ∧ ∀ r ∈ N.reactions, (∃ i ∈ S, Consumes N r i) → ∃ i ∈ S, Produces N r i

/-- `X` is (the increasing list of) a set of species indices `< n` that satisfies `P` and is
inclusion-minimal: every index set `Y ⊆ X` over the same species that satisfies `P` is all of `X`.
(`P` carries non-emptiness.) -/
def MinimalWrt (P : List Nat → Prop) (n : Nat) (X : List Nat) : Prop :=
  X.Sublist (List.range n) ∧ P X ∧ ∀ Y : List Nat, (∀ i ∈ Y, i < n) → P Y → Y ⊆ X → X ⊆ Y

/-! ## Petri nets with dict markings (generic in the place type) -/

section Generic
variable {κ : Type} [DecidableEq κ]

/-- A marking / arc-weight dict: insertion-ordered association list. -/
abbrev Marking (κ : Type) := List (κ × Int)

/-- `m.get(p, 0)`. -/
def mget (m : Marking κ) (p : κ) : Int :=
  match m with
  | [] => 0
  | (q, v) :: rest => if q = p then v else mget rest p

/-- `m[p] = v`. -/
def mset (m : Marking κ) (p : κ) (v : Int) : Marking κ :=
  match m with
  | [] => [(p, v)]
  | (q, w) :: rest => if q = p then (q, v) :: rest else (q, w) :: mset rest p v

/-- Total weight of the arcs of a weight list at place `p` (a dict has at most one). -/
def weightAt (d : List (κ × Int)) (p : κ) : Int :=
  match d with
  | [] => 0
  | (q, w) :: rest => (if q = p then w else 0) + weightAt rest p

structure Transition (κ : Type) where
  tid : String
  pre : List (κ × Int)
  post : List (κ × Int)

/-- `PetriNet.enabled` for a known transition: `for p, w in t.pre.items(): if marking.get(p,0) < w: return False`. -/
def enabled (t : Transition κ) (m : Marking κ) : Bool :=
  t.pre.all fun pw => !decide (mget m pw.1 < pw.2)

/-- `PetriNet.fire` for a known transition: subtract the `pre` weights, then add the `post` weights,
each through `m[p] = m.get(p, 0) ∓ w` on a copy. -/
def fire (t : Transition κ) (m : Marking κ) : Marking κ :=
  let m1 := t.pre.foldl (fun m pw => mset m pw.1 (mget m pw.1 - pw.2)) m
  t.post.foldl (fun m pw => mset m pw.1 (mget m pw.1 + pw.2)) m1

/-- `PetriNet`: places in `_place_index` order, transitions in dict order. -/
structure PNet (κ : Type) where
  places : List κ := []
  transitions : List (Transition κ) := []

/-- `add_place` (idempotent). -/
def PNet.addPlace (n : PNet κ) (p : κ) : PNet κ :=
  if n.places.contains p then n else { n with places := n.places ++ [p] }

def setTransition (ts : List (Transition κ)) (t : Transition κ) : List (Transition κ) :=
  match ts with
  | [] => [t]
  | t' :: rest => if t'.tid = t.tid then t :: rest else t' :: setTransition rest t

/-- `add_transition`: add the places of `pre` and `post`, then `self.transitions[tid] = …`
(an existing id keeps its position in the dict). -/
def PNet.addTransition (n : PNet κ) (t : Transition κ) : PNet κ :=
  let n1 := (t.pre.map (·.1) ++ t.post.map (·.1)).foldl PNet.addPlace n
  { n1 with transitions := setTransition n1.transitions t }

def PNet.find? (n : PNet κ) (tid : String) : Option (Transition κ) :=
  n.transitions.find? fun t => t.tid = tid

/-- `marking_to_tuple`. -/
def toTuple (places : List κ) (m : Marking κ) : List Int := places.map fun p => mget m p

/-- `{p: mtuple[net._place_index[p]] for p in net._place_index}`. -/
def ofTuple (places : List κ) (t : List Int) : Marking κ := places.zip t

end Generic

/-! ## pathway realizability -/

/-- Place names of the extended net.  The code uses the strings `v`, `"__ext__" + e`,
`"__target__" + e`; the model keeps them apart by construction (assumption recorded by the
harness: no species label starts with `__ext__` / `__target__`). -/
inductive Place
  | sp (s : String)
  | ext (e : String)
  | target (e : String)
deriving DecidableEq, Repr

/-- Input of `load_hypergraph_and_flow`: vertices, `edges` (dict order = transition order),
`flow` (read with `.get(eid, 0)`). -/
structure Pathway where
  vertices : List String
  edges : List Rxn
  flow : Dict Int

def Pathway.flowOf (P : Pathway) (e : String) : Int := P.flow.getD e 0

/-- `pre = {v: int(w) for v, w in tail.items() if int(w) > 0}` as a weight list. -/
def sideWeights (d : Dict Nat) : List (Place × Int) :=
  (d.filter fun kv => decide (0 < kv.2)).map fun kv => (Place.sp kv.1, (kv.2 : Int))

/-- The transition built for edge `r`: species arcs plus one token from `__ext__r` / to `__target__r`. -/
def transitionOf (r : Rxn) : Transition Place :=
  { tid := r.id, pre := sideWeights r.reactants ++ [(Place.ext r.id, 1)],
    post := sideWeights r.products ++ [(Place.target r.id, 1)] }

/-- The net of `build_petri_net_from_flow`: species places, then per edge `__ext__`, `__target__`
and the transition. -/
def buildNet (P : Pathway) : PNet Place :=
  let n0 := P.vertices.foldl (fun n v => n.addPlace (Place.sp v)) ({} : PNet Place)
  P.edges.foldl (fun n r =>
    ((n.addPlace (Place.ext r.id)).addPlace (Place.target r.id)).addTransition (transitionOf r)) n0

/-- `M0`: species 0, `__ext__e` ↦ flow(e). -/
def initialMarking (P : Pathway) : Marking Place :=
  let m0 := P.vertices.foldl (fun m v => mset m (Place.sp v) 0) ([] : Marking Place)
  P.edges.foldl (fun m r => mset m (Place.ext r.id) (P.flowOf r.id)) m0

/-- `MT`: species 0, `__target__e` ↦ flow(e). -/
def targetMarking (P : Pathway) : Marking Place :=
  let m0 := P.vertices.foldl (fun m v => mset m (Place.sp v) 0) ([] : Marking Place)
  P.edges.foldl (fun m r => mset m (Place.target r.id) (P.flowOf r.id)) m0

/-- The quick exit: `all(M0.get(p,0) == MT.get(p,0) for p in set(MT) | set(M0))`. -/
def quickEqual (M0 MT : Marking Place) : Bool :=
  (MT.map (·.1) ++ M0.map (·.1)).all fun p => mget M0 p == mget MT p

abbrev Tuple := List Int
abbrev Queue := List (Tuple × List String)

inductive Expand
  | found (seq : List String)
  | cont (q : Queue) (visited : List Tuple)

/-- The inner `for tid in net.transitions` loop for one popped `(marking, seq)`. -/
def expand (places : List Place) (target : Tuple) (marking : Marking Place) (seq : List String) :
    List (Transition Place) → Queue → List Tuple → Expand
  | [], q, vis => .cont q vis
  | t :: ts, q, vis =>
    if enabled t marking then
      let newT := toTuple places (fire t marking)
      if newT = target then .found (seq ++ [t.tid])
      else if vis.contains newT then expand places target marking seq ts q vis
      else expand places target marking seq ts (q ++ [(newT, seq ++ [t.tid])]) (vis ++ [newT])
    else expand places target marking seq ts q vis

/-- Outcome of `is_realizable`.  `notFound` carries two ghost flags the code does not return:
whether the `states > max_states` break was taken and whether some popped entry was skipped by
`len(seq) > max_depth`.  `noEdges` is the `RuntimeError` of `build_petri_net_from_flow`;
`fuelOut` cannot occur (`Props/C20.lean`, `bfs_never_fuelOut`). -/
inductive Result
  | found (seq : List String)
  | notFound (hitStates skippedDepth : Bool)
  | noEdges
  | fuelOut
deriving DecidableEq, Repr

/-- The `while q:` loop; `fuel` bounds the number of pops (the code stops after `max_states + 1`). -/
def bfs (net : PNet Place) (target : Tuple) (maxStates maxDepth : Nat) :
    Nat → Queue → List Tuple → Nat → Bool → Result
  | 0, _, _, _, _ => .fuelOut
  | _ + 1, [], _, _, skipped => .notFound false skipped
  | fuel + 1, (m, seq) :: q, vis, states, skipped =>
    if states + 1 > maxStates then .notFound true skipped
    else if seq.length > maxDepth then bfs net target maxStates maxDepth fuel q vis (states + 1) true
    else
      match expand net.places target (ofTuple net.places m) seq net.transitions q vis with
      | .found s => .found s
      | .cont q' vis' => bfs net target maxStates maxDepth fuel q' vis' (states + 1) skipped

/-- `build_petri_net_from_flow()` followed by `is_realizable(max_states, max_depth)`. -/
def isRealizable (P : Pathway) (maxStates maxDepth : Nat) : Result :=
  if P.edges.isEmpty then .noEdges else
  let net := buildNet P
  let M0 := initialMarking P
  let MT := targetMarking P
  if quickEqual M0 MT then .found []
  else
    let start := toTuple net.places M0
    bfs net (toTuple net.places MT) maxStates maxDepth (maxStates + 2) [(start, [])] [start] 0 false

/-! ## replaying a firing sequence (specification side) -/

/-- One firing as the BFS performs it, on tuples: `none` when the id is unknown or the transition
is not enabled. -/
def stepT (net : PNet Place) (m : Tuple) (tid : String) : Option Tuple :=
  match net.find? tid with
  | none => none
  | some t =>
    if enabled t (ofTuple net.places m) then some (toTuple net.places (fire t (ofTuple net.places m)))
    else none

/-- Fire a whole sequence; `none` as soon as a step is impossible. -/
def runT (net : PNet Place) (m : Tuple) : List String → Option Tuple
  | [] => some m
  | tid :: rest =>
    match stepT net m tid with
    | none => none
    | some m' => runT net m' rest

/-- Specification of a certificate (`spec.certificate`): replayed on the extended net from `M0`
every step is enabled and the final marking is `MT`. -/
def validCertificate (P : Pathway) (seq : List String) : Bool :=
  let net := buildNet P
  runT net (toTuple net.places (initialMarking P)) seq == some (toTuple net.places (targetMarking P))

/-! ## worked examples, evaluated here (core Lean only) and quoted in `Props/C20.lean` -/

/-- `A ⇌ B, B → C` (the F17 input). -/
def exF17 : Net := { species := ["A", "B", "C"], reactions := [
  { id := "r_1", reactants := [("A", 1)], products := [("B", 1)] },
  { id := "r_2", reactants := [("B", 1)], products := [("A", 1)] },
  { id := "r_3", reactants := [("B", 1)], products := [("C", 1)] }] }

theorem exF17_repaired : findSiphons exF17 none = [["A", "B"]] ∧ findTraps exF17 none = [["C"]] := by decide

theorem exF17_idx : [0, 1] ∈ findSiphonsIdx exF17 none ∧ [2] ∈ findTrapsIdx exF17 none := by decide

/-- The code before fix 0003 (product arcs only): no siphon, every singleton a trap. -/
theorem exF17_unrepaired : minimalSets (candidates (isSiphonF17 exF17) 3 3) = [] ∧
    minimalSets (candidates (isTrapF17 exF17) 3 3) = [[0], [1], [2]] := by decide

theorem exMinimal : minimalSets [[0, 1, 2], [1], [0, 1], [2, 0]] = [[1], [2, 0]] := by decide

/-- `∅ → A, A → B, B → ∅` with unit flow. -/
def exPath : Pathway where
  vertices := ["A", "B"]
  edges := [
    { id := "r_1", reactants := [], products := [("A", 1)] },
    { id := "r_2", reactants := [("A", 1)], products := [("B", 1)] },
    { id := "r_3", reactants := [("B", 1)], products := [] }]
  flow := [("r_1", 1), ("r_2", 1), ("r_3", 1)]

theorem exPath_found : isRealizable exPath 1000 100 = .found ["r_1", "r_2", "r_3"] := by decide
theorem exPath_badOrder : validCertificate exPath ["r_2", "r_1", "r_3"] = false := by decide
/-- Firing only `A → B` once needs an `A` that nobody makes: not realizable, no bound touched. -/
theorem exPath_unrealizable :
    isRealizable { exPath with flow := [("r_2", 1)] } 1000 100 = .notFound false false := by decide

end SynKit.Petri

import SynKitModel.Net
import SynKitModel.NetGraphAlg
/-!
# C19 — complexes, linkage classes, weak reversibility, deficiency (model of the code)

Mirrors `synkit/CRN/Props/deficiency.py`: `_complex_vectors`, `compute_summary`,
`_is_weakly_reversible`, `_linkage_class_stoich_rank`, `compute_linkage_deficiencies`.

`_complex_vectors` follows the **repaired** code (draft fix 0002): the arcs of a reaction node are
its reactant arcs (`in_edges`) and its product arcs (`out_edges`).  The unrepaired code walks
`G.edges(r)` on a `DiGraph` (product arcs only), so every reactant complex is the zero vector;
that variant is `complexVectorsF16`, kept for the negation witness in `Props/C19.lean`.

Ranks are NumPy's business (`matrix_rank`); the model takes them as arguments.  The harness
supplies exact rational ranks and separately checks the implementation's numbers against them.
-/
namespace SynKit.Deficiency
open SynKit.NetGraphAlg

/-- A complex as the code stores it: the tuple of coefficients over the species order. -/
abbrev Complex := List Nat

/-- `lhs[idx] += coeff` over the arcs of one role: position `i` holds the total coefficient of
species `i` on that side (labels that are not species nodes are skipped). -/
def vecOf (N : Net) (d : Dict Nat) : Complex := N.species.map fun s => d.sumOf s

/-- `add_complex`: index of `v`, appending it when it has not been seen. -/
def addComplex (cs : List Complex) (v : Complex) : List Complex × Nat :=
  if cs.contains v then (cs, cs.idxOf v) else (cs ++ [v], cs.length)

/-- `CG.add_edge(u, v)` on a `DiGraph`: arcs form a set. -/
def addArc (arcs : Edges) (a : Nat × Nat) : Edges := if arcs.contains a then arcs else arcs ++ [a]

/-- One pass of the reaction loop of `_complex_vectors`. -/
def complexStep (N : Net) (st : List Complex × Edges) (r : Rxn) : List Complex × Edges :=
  let (cs1, u) := addComplex st.1 (vecOf N r.reactants)
  let (cs2, v) := addComplex cs1 (vecOf N r.products)
  (cs2, addArc st.2 (u, v))

/-- `_complex_vectors`: complexes in first-appearance order (reactant complex before product
complex, reactions in node order) and the arcs `y → y'` of the complex graph by index. -/
def complexVectors (N : Net) : List Complex × Edges := N.reactions.foldl (complexStep N) ([], [])

def complexes (N : Net) : List Complex := (complexVectors N).1
def complexArcs (N : Net) : Edges := (complexVectors N).2

/-- The unrepaired builder (defect F16): no reactant arc is seen, the reactant complex is zero. -/
def complexVectorsF16 (N : Net) : List Complex × Edges :=
  N.reactions.foldl (fun st r =>
    let (cs1, u) := addComplex st.1 (vecOf N [])
    let (cs2, v) := addComplex cs1 (vecOf N r.products)
    (cs2, addArc st.2 (u, v))) ([], [])

/-- `nx.connected_components(CG.to_undirected())`: classes in order of their first complex. -/
def linkageClasses (N : Net) : List (List Nat) :=
  components (List.range (complexes N).length) (complexArcs N)

/-- `_is_weakly_reversible`: every linkage class is strongly connected as a directed sub-graph. -/
def weaklyReversible (N : Net) : Bool :=
  (linkageClasses N).all fun C => stronglyConnected (complexArcs N) C

/-- Difference vectors `y' − y` of the arcs inside a class, zero differences skipped: the
columns whose rank `_linkage_class_stoich_rank` takes. -/
def classDiffs (N : Net) (C : List Nat) : List (List Int) :=
  ((restrict (complexArcs N) C).map fun a =>
      List.zipWith (fun (y' y : Nat) => (y' : Int) - (y : Int))
        ((complexes N).getD a.2 []) ((complexes N).getD a.1 [])).filter fun d => d.any (· != 0)

/-- Stoichiometric matrix entry of species `i`, reaction `r` (`S = S⁺ − S⁻`), row-major rows. -/
def stoichRows (N : Net) : List (List Int) :=
  N.species.map fun s => N.reactions.map fun r => (r.products.sumOf s : Int) - (r.reactants.sumOf s : Int)

inductive Err | valueError
deriving DecidableEq, Repr

instance {ε α : Type} [DecidableEq ε] [DecidableEq α] : DecidableEq (Except ε α) := fun a b =>
  match a, b with
  | .ok x, .ok y => if h : x = y then isTrue (by rw [h]) else isFalse (by intro h'; cases h'; exact h rfl)
  | .error x, .error y => if h : x = y then isTrue (by rw [h]) else isFalse (by intro h'; cases h'; exact h rfl)
  | .ok _, .error _ => isFalse (by intro h; cases h)
  | .error _, .ok _ => isFalse (by intro h; cases h)

structure Summary where
  nSpecies : Nat
  nReactions : Nat
  nComplexes : Nat
  nLinkage : Nat
  rank : Nat
  deficiency : Int
  weaklyReversible : Bool
deriving DecidableEq, Repr

/-- `compute_summary` with the stoichiometric rank supplied: `δ = n − ℓ − rank`.
`_split_species_reactions` raises `ValueError` without species or without reactions. -/
def computeSummary (N : Net) (rank : Nat) : Except Err Summary :=
  if N.species.isEmpty || N.reactions.isEmpty then .error .valueError else
  .ok { nSpecies := N.nSpecies, nReactions := N.nReactions,
        nComplexes := (complexes N).length, nLinkage := (linkageClasses N).length, rank := rank,
        deficiency := ((complexes N).length : Int) - ((linkageClasses N).length : Int) - (rank : Int),
        weaklyReversible := weaklyReversible N }

/-- `compute_linkage_deficiencies` with the per-class ranks supplied (aligned with
`linkageClasses`): `δ_ℓ = n_ℓ − 1 − s_ℓ`. -/
def linkageDeficiencies (N : Net) (ranks : List Nat) : List Int :=
  List.zipWith (fun (C : List Nat) (s : Nat) => (C.length : Int) - 1 - (s : Int)) (linkageClasses N) ranks

/-! ## worked examples (evaluated here, quoted in `Props/C19.lean`) -/

/-- `A + B ⇌ C` (the F16 input). -/
def exF16 : Net where
  species := ["A", "B", "C"]
  reactions := [
    { id := "r_1", reactants := [("A", 1), ("B", 1)], products := [("C", 1)] },
    { id := "r_2", reactants := [("C", 1)], products := [("A", 1), ("B", 1)] }]

theorem exF16_repaired : complexes exF16 = [[1, 1, 0], [0, 0, 1]] ∧ complexArcs exF16 = [(0, 1), (1, 0)] ∧
    linkageClasses exF16 = [[0, 1]] ∧ weaklyReversible exF16 = true ∧
    computeSummary exF16 1 = .ok ⟨3, 2, 2, 1, 1, 0, true⟩ := by decide

/-- The code before fix 0002: three complexes (zero, `C`, `A+B`), one class, not weakly
reversible, deficiency 3 − 1 − 1 = 1. -/
theorem exF16_unrepaired : (complexVectorsF16 exF16).1 = [[0, 0, 0], [0, 0, 1], [1, 1, 0]] ∧
    (complexVectorsF16 exF16).2 = [(0, 1), (0, 2)] := by decide

end SynKit.Deficiency

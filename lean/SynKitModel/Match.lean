import SynKitModel.Graph
/-!
# Label-preserving monomorphisms: specification and a proven enumerator

Shared by C03–C09, C11–C13, C18.  `IsMono` / `IsInduced` / `IsIso` are the declarative
specifications; `allMonos` / `allInduced` enumerate them by back-tracking over the pattern's
node list (theorems `mem_allMonos`, `mem_allInduced` in `SynKitProofs/Match.lean`).
A mapping is the list of (pattern node, host node) pairs **in the pattern's node order**.
-/
namespace SynKit.Match

abbrev Mapping := List (Nat × Nat)

def Mapping.get? (m : Mapping) (p : Nat) : Option Nat := (m.find? (·.1 = p)).map (·.2)

/-- Which attributes a matcher compares (`node_attrs`, `edge_attrs`) and whether the
"host hydrogen count ≥ pattern hydrogen count" rule is applied. -/
structure Sel where
  nodeKeys : List String
  edgeKeys : List String
  hcountRule : Bool := true
deriving Repr, DecidableEq

/-- `d.get("hcount", 0)` read as a number (half-units). -/
def hcountOf (a : Attrs) : Int :=
  match a.get "hcount" with
  | .num h => h
  | _ => 0

/-- The node closure SynKit hands to VF2:
`all(nh.get(k) == np.get(k) for k in node_attrs) and nh.get("hcount",0) >= np.get("hcount",0)`. -/
def nodeOk (sel : Sel) (ha pa : Attrs) : Bool :=
  sel.nodeKeys.all (fun k => ha.get k = pa.get k) && (!sel.hcountRule || hcountOf ha ≥ hcountOf pa)

/-- The edge closure: `all(eh.get(k) == ep.get(k) for k in edge_attrs)`. -/
def edgeOk (sel : Sel) (ea pa : Attrs) : Bool :=
  sel.edgeKeys.all (fun k => ea.get k = pa.get k)

/-- Specification of a label-preserving monomorphism of `P` into `H`. -/
def IsMono (sel : Sel) (H P : LGraph) (m : Mapping) : Prop :=
  m.map (·.1) = P.ids ∧ (m.map (·.2)).Nodup ∧
  (∀ ph ∈ m, ph.2 ∈ H.ids ∧ nodeOk sel (H.attrs ph.2) (P.attrs ph.1) = true) ∧
  (∀ e ∈ P.edges, ∃ hu hv ea, m.get? e.1 = some hu ∧ m.get? e.2.1 = some hv ∧
      H.edge? hu hv = some ea ∧ edgeOk sel ea e.2.2 = true)

/-- Induced embedding: a monomorphism under which non-adjacent pattern nodes stay non-adjacent. -/
def IsInduced (sel : Sel) (H P : LGraph) (m : Mapping) : Prop :=
  IsMono sel H P m ∧
  ∀ p q hp hq, m.get? p = some hp → m.get? q = some hq → P.hasEdge p q = false → H.hasEdge hp hq = false

/-- Isomorphism: an induced embedding between graphs with equally many nodes. -/
def IsIso (sel : Sel) (H P : LGraph) (m : Mapping) : Prop :=
  IsInduced sel H P m ∧ H.nodes.length = P.nodes.length

/-- Can pattern node `p` be sent to host node `h`, given the partial assignment `acc`
(most recent first)?  Checks injectivity, the node closure, and every pattern edge between
`p` and an already assigned node; with `induced` also every non-edge (including the non-loop at
`p` itself: a host node carrying a self-loop is never the image of a pattern node, which only
matters for ill-formed hosts — well-formed graphs have no self-loops). -/
def extendOk (sel : Sel) (induced : Bool) (H P : LGraph) (acc : Mapping) (p h : Nat) : Bool :=
  !(acc.any (·.2 = h)) && nodeOk sel (H.attrs h) (P.attrs p) &&
  (!induced || !(H.hasEdge h h)) &&
  acc.all fun qh =>
    match P.edge? p qh.1 with
    | some pa => (match H.edge? h qh.2 with
        | some ea => edgeOk sel ea pa
        | none => false)
    | none => !induced || !(H.hasEdge h qh.2)

def extend (sel : Sel) (induced : Bool) (H P : LGraph) : List Nat → Mapping → List Mapping
  | [], acc => [acc.reverse]
  | p :: ps, acc =>
    H.ids.flatMap fun h => if extendOk sel induced H P acc p h then extend sel induced H P ps ((p, h) :: acc) else []

/-- All label-preserving monomorphisms of `P` into `H`. -/
def allMonos (sel : Sel) (H P : LGraph) : List Mapping := extend sel false H P P.ids []

/-- All induced embeddings of `P` into `H`. -/
def allInduced (sel : Sel) (H P : LGraph) : List Mapping := extend sel true H P P.ids []

/-- Isomorphism test (host-≥-pattern hydrogen rule with `H` as host when `sel.hcountRule`). -/
def isoDecide (sel : Sel) (H P : LGraph) : Bool :=
  H.nodes.length = P.nodes.length && !(allInduced sel H P).isEmpty

/-- Label-preserving automorphisms. -/
def auts (sel : Sel) (G : LGraph) : List Mapping := allInduced sel G G

end SynKit.Match

import SynKitModel.Graph
import SynKitModel.Match
/-!
# Rule application at graph level (`SynReactor`), stage by stage  (C03; reused by C04/C05)

Mirrors `synkit/Synthesis/Reactor/syn_reactor.py` (`_glue_graph`, `_default_tg`, `_node_glue`,
`_explicit_h`, `_invert_template`), `its_decompose`, `h_to_implicit` / `h_to_explicit` of
`Graph/Hyrogen/_misc.py` and `SynRule._strip_explicit_h`.

Conventions
* an ITS-like graph is an `LGraph` whose nodes carry `typesGH = ((el, arom, hcount, charge, nbrs), (…))`
  and whose edges carry `order = (o_reactant, o_product)`; all numbers are in half-units
  (`Val.num 2` is the number 1), so *one hydrogen is 2* in every `Int` of this file;
* Python `round` (half to even) is `pyRound`;
* the two in-place loops of `_glue_graph` ("merge nodes", "merge edges") are modelled as one
  simultaneous update of the host's node list and edge list.  The two coincide whenever the mapping
  is injective and the template has no parallel edges — which holds for every NetworkX graph and
  every VF2 result; the correspondence run compares the outcome on every case;
* wildcard atoms (`"*"`) keep their branches in `nodeGlue` as coded, but `partial=True` and
  `add_wildcard_subgraph_for_unmapped` are outside the property's quantifier and not modelled.
-/
namespace SynKit.Reactor
open SynKit.Match (Mapping)

/-! ## Python value helpers -/

def numOf : Val → Int
  | .num h => h
  | _ => 0

def tupList : Val → List Val
  | .tup xs => xs
  | _ => []

/-- `t[i]` on a tuple (absent ↦ `None`; the well-formedness predicates exclude that case). -/
def tupGet (v : Val) (i : Nat) : Val := (tupList v).getD i Val.none

/-- `d.get(k, default)`. -/
def pyGet (a : Attrs) (k : String) (d : Val) : Val := Dict.getD a k d

/-- `k in d`. -/
def hasKey (a : Attrs) (k : String) : Bool := (Dict.get? a k).isSome

/-- `d.setdefault(k, v)`. -/
def setDefault (a : Attrs) (k : String) (v : Val) : Attrs := if hasKey a k then a else Dict.set a k v

/-- `d.update(b)`. -/
def update (a b : Attrs) : Attrs := b.foldl (fun acc kv => Dict.set acc kv.1 kv.2) a

/-- `typesGH[s][i]`. -/
def tgField (a : Attrs) (s i : Nat) : Val := tupGet (tupGet (a.get "typesGH") s) i

/-- `order[s]` of an ITS edge. -/
def ordAt (a : Attrs) (s : Nat) : Val := tupGet (a.get "order") s

/-- Python `round(x)` on a float given in half-units, result in half-units (half to even). -/
def pyRound (h : Int) : Int :=
  if h % 2 = 0 then h else
    let k := (h - 1) / 2
    if k % 2 = 0 then 2 * k else 2 * (k + 1)

/-! ## `its_decompose` -/

def sideNode (n : Nat) (t : Val) : Nat × Attrs :=
  (n, [("element", tupGet t 0), ("aromatic", tupGet t 1), ("hcount", tupGet t 2),
       ("charge", tupGet t 3), ("atom_map", Val.num (2 * (n : Int)))])

/-- One side of `its_decompose` (`s = 0` reactants, `s = 1` products): every node that has
`typesGH`, every edge that has `order` with a positive order on that side. -/
def decompSide (s : Nat) (I : LGraph) : LGraph :=
  { nodes := I.nodes.filterMap fun p =>
      if hasKey p.2 "typesGH" then some (sideNode p.1 (tupGet (p.2.get "typesGH") s)) else none
    edges := I.edges.filterMap fun e =>
      if hasKey e.2.2 "order" ∧ numOf (ordAt e.2.2 s) > 0 then some (e.1, e.2.1, [("order", ordAt e.2.2 s)])
      else none }

def left (I : LGraph) : LGraph := decompSide 0 I
def right (I : LGraph) : LGraph := decompSide 1 I

/-! ## `_glue_graph` (implicit path) -/

/-- `_default_tg`. -/
def defaultTg (a : Attrs) : Val :=
  let t := Val.tup [pyGet a "element" (.str "*"), pyGet a "aromatic" (.bool false), pyGet a "hcount" (.num 0),
                    pyGet a "charge" (.num 0), pyGet a "neighbors" (.tup [])]
  .tup [t, t]

def prepNode (p : Nat × Attrs) : Nat × Attrs := (p.1, setDefault p.2 "typesGH" (defaultTg p.2))

/-- `o = data.get("order", 1.0); data["order"] = (o, o); data.setdefault("standard_order", 0.0)`. -/
def prepEdgeAttrs (a : Attrs) : Attrs :=
  let o := pyGet a "order" (.num 2)
  setDefault (Dict.set a "order" (.tup [o, o])) "standard_order" (.num 0)

def prepEdge (e : Nat × Nat × Attrs) : Nat × Nat × Attrs := (e.1, e.2.1, prepEdgeAttrs e.2.2)

def prepHost (H : LGraph) : LGraph := { nodes := H.nodes.map prepNode, edges := H.edges.map prepEdge }

/-- `_node_glue(host_n, pat_n)`: reactant label kept, product label = host label with the hydrogen
count lowered by the template's `delta = pat_r[2] - pat_p[2]` and the charge **copied from the
template's product side**; `h_pairs` copied when the template node has them. -/
def nodeGlue (h p : Attrs) : Attrs :=
  let hr := tupList (tupGet (h.get "typesGH") 0)
  let hp := tupList (tupGet (h.get "typesGH") 1)
  let pr := tupGet (p.get "typesGH") 0
  let pp := tupGet (p.get "typesGH") 1
  let delta := numOf (tupGet pr 2) - numOf (tupGet pp 2)
  let hr2 := hr.getD 2 Val.none
  let newR := if tupGet pr 0 = .str "*" then [tupGet pr 0] ++ (hr.drop 1).take 1 ++ [hr2] ++ hr.drop 3
              else hr.take 2 ++ [hr2] ++ hr.drop 3
  let tail := [Val.num (numOf hr2 - delta), tupGet pp 3] ++ hp.drop 4
  let newP := if tupGet pp 0 = .str "*" then [tupGet pp 0] ++ hp.take 2 ++ tail else hp.take 2 ++ tail
  let h1 : Attrs := Dict.set h "typesGH" (.tup [.tup newR, .tup newP])
  if hasKey p "h_pairs" then Dict.set h1 "h_pairs" (p.get "h_pairs") else h1

/-- The template node mapped onto host node `h` (the mapping is injective). -/
def preimage (m : Mapping) (h : Nat) : Option Nat := (m.find? (·.2 = h)).map (·.1)

/-- Does template edge `te` land on the host pair `{x, y}` under `m`? -/
def landsOn (m : Mapping) (te : Nat × Nat × Attrs) (x y : Nat) : Bool :=
  match m.get? te.1, m.get? te.2.1 with
  | some hu, some hv => (hu = x && hv = y) || (hu = y && hv = x)
  | _, _ => false

def tplEdgeFor (T : LGraph) (m : Mapping) (x y : Nat) : Option (Nat × Nat × Attrs) :=
  T.edges.find? fun te => landsOn m te x y

/-- Edge merge on an existing (prepared) host edge: additive on the product side with `round`
when the template's reactant order is 0, plain `dict.update` otherwise. -/
def mergeEdge (a ta : Attrs) : Attrs :=
  let rcOrder := pyGet ta "order" (.tup [.num 0, .num 0])
  if tupGet rcOrder 0 = .num 0 then
    let ho := a.get "order"
    let a1 : Attrs := Dict.set a "order" (.tup [tupGet ho 0, .num (pyRound (numOf (tupGet ho 1) + numOf (tupGet rcOrder 1)))])
    Dict.set a1 "standard_order" (.num (numOf (a1.get "standard_order") + numOf (pyGet ta "standard_order" (.num 0))))
  else update a ta

/-- "merge nodes" on one prepared host node. -/
def glueNode (T : LGraph) (m : Mapping) (p : Nat × Attrs) : Nat × Attrs :=
  match preimage m p.1 with
  | some q => (p.1, nodeGlue p.2 (prepNode (q, T.attrs q)).2)
  | none => p

/-- "merge edges" on one prepared host edge. -/
def glueHostEdge (T : LGraph) (m : Mapping) (e : Nat × Nat × Attrs) : Nat × Nat × Attrs :=
  match tplEdgeFor T m e.1 e.2.1 with
  | some te => (e.1, e.2.1, mergeEdge e.2.2 te.2.2)
  | none => e

/-- `its.add_edge(hu, hv, **rc_attr)` for a template edge whose image is not a host edge. -/
def glueNewEdge (host : LGraph) (m : Mapping) (te : Nat × Nat × Attrs) : Option (Nat × Nat × Attrs) :=
  match m.get? te.1, m.get? te.2.1 with
  | some hu, some hv => if host.hasEdge hu hv then none else some (hu, hv, te.2.2)
  | _, _ => none

/-- `_glue_graph(host, rc, m, pattern_has_explicit_H=False)`: the single ITS it returns. -/
def glue (host T : LGraph) (m : Mapping) : LGraph :=
  let H := prepHost host
  { nodes := H.nodes.map (glueNode T m)
    edges := H.edges.map (glueHostEdge T m) ++ T.edges.filterMap (glueNewEdge host m) }

/-! ## Hydrogen bookkeeping: `h_to_implicit`, `h_to_explicit`, `_explicit_h` -/

def isH (a : Attrs) : Bool := a.get "element" = .str "H"

/-- `has_XH`: some edge joins a hydrogen and a non-hydrogen. -/
def hasXH (G : LGraph) : Bool :=
  G.edges.any fun e => (isH (G.attrs e.1) && !isH (G.attrs e.2.1)) || (!isH (G.attrs e.1) && isH (G.attrs e.2.1))

def updNode (G : LGraph) (v : Nat) (f : Attrs → Attrs) : LGraph :=
  { G with nodes := G.nodes.map fun p => if p.1 = v then (p.1, f p.2) else p }

def removeNode (G : LGraph) (v : Nat) : LGraph :=
  { nodes := G.nodes.filter fun p => p.1 ≠ v, edges := G.edges.filter fun e => e.1 ≠ v && e.2.1 ≠ v }

/-- One turn of the loop of `h_to_implicit` for hydrogen `h`, **with repair F18 (draft fix 0012)**:
a hydrogen none of whose current neighbours is heavy (H⁺, H₂) stays; otherwise each heavy neighbour
gains one `hcount` and the hydrogen is removed.  (On the pinned tree the first test is absent; the
two agree whenever every hydrogen of the graph has a heavy neighbour at its turn, which holds for
every pattern the reactor prepares from the corpus.) -/
def hToImplicitStep (G : LGraph) (h : Nat) : LGraph :=
  let nb := G.neighbors h
  if nb.all (fun n => isH (G.attrs n)) then G else
  removeNode (nb.foldl (fun G v =>
    if isH (G.attrs v) then G
    else updNode G v fun a => Dict.set a "hcount" (.num (numOf (pyGet a "hcount" (.num 0)) + 2))) G) h

/-- `h_to_implicit`. -/
def hToImplicit (G : LGraph) : LGraph :=
  ((G.nodes.filter fun p => isH p.2).map (·.1)).foldl hToImplicitStep G

def maxId (G : LGraph) : Nat := G.ids.foldl max 0

def newH : Attrs :=
  [("element", .str "H"), ("aromatic", .bool false), ("hcount", .num 0), ("charge", .num 0), ("atom_map", .num 0),
   ("typesGH", .tup [.tup [.str "H", .bool false, .num 0, .num 0, .tup []], .tup [.str "H", .bool false, .num 0, .num 0, .tup []]])]

/-- One step of `h_to_explicit` for the heavy atom `v` (fresh ids start after `next`). -/
def expandOne (G : LGraph) (next : Nat) (v : Nat) : LGraph × Nat :=
  if !G.hasNode v then (G, next) else
  let a := G.attrs v
  let cnt := numOf (pyGet a "hcount" (.num 0))
  if cnt ≤ 0 then (G, next) else
  let k := (cnt / 2).toNat
  let ids := (List.range k).map (· + next + 1)
  let a1 : Attrs := Dict.set a "hcount" (.num (numOf (a.get "hcount") - cnt))
  let a2 := if hasKey a1 "typesGH" then
      let t := a1.get "typesGH"
      let r0 := tupList (tupGet t 0)
      Dict.set a1 "typesGH" (.tup ([.tup (r0.take 2 ++ [.num (numOf (r0.getD 2 .none) - cnt)] ++ r0.drop 3)] ++ (tupList t).drop 1))
    else a1
  ({ nodes := (G.nodes.map fun p => if p.1 = v then (p.1, a2) else p) ++ ids.map fun i => (i, newH)
     edges := G.edges ++ ids.map fun i => (v, i, [("order", .num 2)]) }, next + k)

/-- `h_to_explicit(G, nodes)` (non-empty `nodes`, `its=False`). -/
def hToExplicit (G : LGraph) (nodes : List Nat) : LGraph :=
  (nodes.foldl (fun (acc : LGraph × Nat) v => expandOne acc.1 acc.2 v) (G, maxId G)).1

/-- `h_pairs` of a node (`d.get("h_pairs", [])`). -/
def hPairsOf (a : Attrs) : List Val := tupList (pyGet a "h_pairs" (.tup []))

def hL (a : Attrs) : Int := numOf (tgField a 0 2)
def hR (a : Attrs) : Int := numOf (tgField a 1 2)

/-- `pair_to_nodes[pid].append(n)` unless already there (insertion-ordered dict). -/
def addPair : List (Val × List Nat) → Val → Nat → List (Val × List Nat)
  | [], pid, n => [(pid, [n])]
  | (k, ns) :: rest, pid, n =>
    if k = pid then (k, if n ∈ ns then ns else ns ++ [n]) :: rest else (k, ns) :: addPair rest pid n

def pairToNodes (I : LGraph) : List (Val × List Nat) :=
  I.nodes.foldl (fun d p => (hPairsOf p.2).foldl (fun d pid => addPair d pid p.1) d) []

/-- Duplicate removal (the order inside a component is irrelevant: it is sorted before use). -/
def dedupNat : List Nat → List Nat
  | [] => []
  | x :: xs => if x ∈ dedupNat xs then dedupNat xs else x :: dedupNat xs

/-- Connected components of the union of cliques. -/
def mergeComp (comps : List (List Nat)) (cl : List Nat) : List (List Nat) :=
  let hit := comps.filter fun c => c.any (· ∈ cl)
  let miss := comps.filter fun c => !(c.any (· ∈ cl))
  miss ++ [dedupNat (hit.flatten ++ cl)]

def components (p2n : List (Val × List Nat)) : List (List Nat) := p2n.foldl (fun cs kv => mergeComp cs kv.2) []

/-- `next(i for i, r in enumerate(recips) if r[1] > 0)` and the decrement; `none` = `StopIteration`. -/
def takeRecip : List (Nat × Int) → Option (Nat × List (Nat × Int))
  | [] => none
  | (r, cap) :: rest =>
    if cap > 0 then some (r, (r, cap - 2) :: rest)
    else (takeRecip rest).map fun x => (x.1, (r, cap) :: x.2)

def giveN (donor : Nat) : Nat → List (Nat × Int) → Option (List (Nat × Nat) × List (Nat × Int))
  | 0, rc => some ([], rc)
  | k + 1, rc =>
    match takeRecip rc with
    | none => none
    | some (r, rc') => (giveN donor k rc').map fun x => ((donor, r) :: x.1, x.2)

def migrateComp (donors : List (Nat × Int)) (recips : List (Nat × Int)) : Option (List (Nat × Nat)) :=
  (donors.foldl (fun (acc : Option (List (Nat × Nat) × List (Nat × Int))) d =>
      match acc with
      | none => none
      | some (ms, rc) => (giveN d.1 (d.2 / 2).toNat rc).map fun x => (ms ++ x.1, x.2)) (some ([], recips))).map (·.1)

def insertSorted (x : Nat) : List Nat → List Nat
  | [] => [x]
  | y :: ys => if x ≤ y then x :: y :: ys else y :: insertSorted x ys
def sortNat (xs : List Nat) : List Nat := xs.foldr insertSorted []

/-- `orig_delta[n] = hl - hr`. -/
def dOf (I : LGraph) (n : Nat) : Int := hL (I.attrs n) - hR (I.attrs n)

/-- Migrations `(donor, receiver)` of one hydrogen-pair component.  Python iterates a `set` here;
the model iterates in ascending node order (the comparison with the implementation is modulo the
resulting choice, see `harness/props/c03.py`). -/
def compMigrations (I : LGraph) (comp : List Nat) : Option (List (Nat × Nat)) :=
  let c := sortNat comp
  migrateComp ((c.filter fun n => dOf I n > 0).map fun n => (n, dOf I n))
              ((c.filter fun n => dOf I n < 0).map fun n => (n, - dOf I n))

/-- Migrations `(donor, receiver)` of `_explicit_h`, component after component. -/
def migrations (I : LGraph) : Option (List (Nat × Nat)) :=
  (components (pairToNodes I)).foldl (fun acc comp =>
    match acc with
    | none => none
    | some ms => (compMigrations I comp).map fun x => ms ++ x) (some [])

/-- One pass of the final loop of `_explicit_h` on one node's attributes: the larger side (the
reactant side on a tie) loses one hydrogen. -/
def decH (a : Attrs) : Attrs :=
  let t0 := tupList (tupGet (a.get "typesGH") 0)
  let t1 := tupList (tupGet (a.get "typesGH") 1)
  let h0 := t0.getD 2 Val.none
  let h1 := t1.getD 2 Val.none
  let (n0, n1) := if numOf h0 - numOf h1 ≥ 0 then (Val.num (numOf h0 - 2), h1) else (h0, Val.num (numOf h1 - 2))
  Dict.set a "typesGH" (.tup [.tup (t0.take 2 ++ [n0] ++ t0.drop 3), .tup (t1.take 2 ++ [n1] ++ t1.drop 3)])

def nextId (G : LGraph) : Nat := match G.ids with | [] => 0 | _ => maxId G + 1

/-- Attributes `_explicit_h` gives a new hydrogen atom. -/
def newHits : Attrs :=
  [("element", .str "H"), ("aromatic", .bool false), ("charge", .num 0), ("atom_map", .num 0), ("hcount", .num 0),
   ("typesGH", .tup [.tup [.str "H", .bool false, .num 0, .num 0, .tup []], .tup [.str "H", .bool false, .num 0, .num 0, .tup []]])]

/-- The hydrogen atoms added for the migrations `ms` (ids from `n0` on) … -/
def newHNodes (n0 : Nat) (ms : List (Nat × Nat)) : List (Nat × Attrs) :=
  ((List.range ms.length).zip ms).map fun x => (n0 + x.1, newHits)

/-- … each bonded to its donor on the reactant side and to its receiver on the product side. -/
def newHEdges (n0 : Nat) (ms : List (Nat × Nat)) : List (Nat × Nat × Attrs) :=
  ((List.range ms.length).zip ms).flatMap fun x =>
    [(x.2.1, n0 + x.1, [("order", Val.tup [.num 2, .num 0]), ("standard_order", Val.num 2)]),
     (n0 + x.1, x.2.2, [("order", Val.tup [.num 0, .num 2]), ("standard_order", Val.num (-2))])]

/-- The atoms whose label the final loop of `_explicit_h` touches (with multiplicity). -/
def affected (I : LGraph) : List Nat := (pairToNodes I).flatMap (·.2)

/-- `_explicit_h(rc)`; `none` when Python raises `StopIteration` (a donor finds no receiver). -/
def explicitH (I : LGraph) : Option LGraph :=
  match migrations I with
  | none => none
  | some ms =>
    let I1 : LGraph := { nodes := I.nodes ++ newHNodes (nextId I) ms, edges := I.edges ++ newHEdges (nextId I) ms }
    some ((affected I).foldl (fun G n => updNode G n decH) I1)

/-! ## `_invert_template` -/

/-- `ITSConstruction().ITSGraph(r, l)` for `(l, r) = its_decompose(T)`: sides swapped, `neighbors`
reset to the constructor's default `["", ""]`, other attributes taken from the product side,
`standard_order` recomputed.  (Edge insertion order in Python comes from a `set`; the model keeps
the template's order and the comparison is order-insensitive.) -/
def invert (T : LGraph) : LGraph :=
  { nodes := T.nodes.filterMap fun p =>
      if hasKey p.2 "typesGH" then
        let r := tupGet (p.2.get "typesGH") 1
        let l := tupGet (p.2.get "typesGH") 0
        let nb := Val.tup [.str "", .str ""]
        let side (t : Val) : Val := .tup [tupGet t 0, tupGet t 1, tupGet t 2, tupGet t 3, nb]
        some (p.1, [("element", tupGet r 0), ("aromatic", tupGet r 1), ("hcount", tupGet r 2), ("charge", tupGet r 3),
                    ("atom_map", Val.num (2 * (p.1 : Int))), ("typesGH", .tup [side r, side l]), ("neighbors", nb)])
      else none
    edges := T.edges.filterMap fun e =>
      if hasKey e.2.2 "order" then
        let o0 := numOf (ordAt e.2.2 0)
        let o1 := numOf (ordAt e.2.2 1)
        if o0 > 0 ∨ o1 > 0 then
          let a := if o1 > 0 then o1 else 0
          let b := if o0 > 0 then o0 else 0
          some (e.1, e.2.1, [("order", Val.tup [.num a, .num b]), ("standard_order", Val.num (a - b))])
        else none
      else none }

/-! ## Specification predicates evaluated on the implementation's own outputs (`reactor.spec`) -/

/-- Fold hydrogens that have a heavy neighbour into the `hcount` of those neighbours (hydrogens
without heavy neighbour — H₂, H⁺ — stay atoms).  The "H normalisation" of clause (a). -/
def normH (G : LGraph) : LGraph :=
  let foldable (v : Nat) : Bool := isH (G.attrs v) && (G.neighbors v).any fun w => !isH (G.attrs w)
  let gain (v : Nat) : Int := 2 * ((G.neighbors v).filter foldable).length
  { nodes := (G.nodes.filter fun p => !foldable p.1).map fun p =>
      (p.1, [("element", pyGet p.2 "element" (.str "*")), ("aromatic", pyGet p.2 "aromatic" (.bool false)),
             ("hcount", .num (numOf (pyGet p.2 "hcount" (.num 0)) + (if isH p.2 then 0 else gain p.1))),
             ("charge", pyGet p.2 "charge" (.num 0))])
    edges := (G.edges.filter fun e => !foldable e.1 && !foldable e.2.1).map fun e =>
      (e.1, e.2.1, [("order", pyGet e.2.2 "order" (.num 2))]) }

def sumBy (G : LGraph) (f : Attrs → Int) : Int := (G.nodes.map fun p => f p.2).sum

/-- Is the ITS edge changed (its two orders differ)? -/
def changed (a : Attrs) : Bool := numOf (ordAt a 0) ≠ numOf (ordAt a 1)

/-- The labelled graph of changed bonds: nodes = end atoms of changed bonds labelled with element
and hydrogen-count change (an explicit hydrogen atom is just an atom of element H), edges labelled
with the amount by which the order changes. -/
def labelledChanges (I : LGraph) : LGraph :=
  let es := I.edges.filter fun e => changed e.2.2
  let touched (v : Nat) : Bool := es.any fun e => e.1 = v || e.2.1 = v
  { nodes := (I.nodes.filter fun p => touched p.1).map fun p =>
      (p.1, [("el", tgField p.2 0 0), ("dh", .num (hR p.2 - hL p.2))])
    edges := es.map fun e => (e.1, e.2.1, [("d", Val.num (numOf (ordAt e.2.2 1) - numOf (ordAt e.2.2 0)))]) }

/-- Equality of two labelled graphs irrespective of node order, edge order and edge orientation
(both graphs have distinct node ids and no parallel edges). -/
def sameLabelled (G H : LGraph) : Bool :=
  G.nodes.length = H.nodes.length && G.nodes.all (fun p => H.nodes.contains p) &&
  G.edges.length = H.edges.length &&
  G.edges.all (fun e => H.edges.any fun f => f = e || f = (e.2.1, e.1, e.2.2))

/-- Clause (a) on an output: the reactant side of the ITS is the substrate, after folding
hydrogens into counts on both. -/
def specA (host its : LGraph) : Bool := sameLabelled (normH (left its)) (normH host)

/-- Hydrogen and charge imbalance (product minus reactant, half-units) of an ITS-like graph, and
whether every atom keeps its element.  Explicit hydrogen atoms are atoms on both sides. -/
def imbalance (I : LGraph) : Int × Int × Bool :=
  (sumBy I (fun a => hR a - hL a),
   sumBy I (fun a => numOf (tgField a 1 3) - numOf (tgField a 0 3)),
   I.nodes.all fun p => tgField p.2 0 0 = tgField p.2 1 0)

/-- Clause (b) on an output. -/
def specB (its : LGraph) : Bool := imbalance its = (0, 0, true)

def chgSel : SynKit.Match.Sel := { nodeKeys := ["el", "dh"], edgeKeys := ["d"], hcountRule := false }

/-- Clause (c) on an output: labelled changed-bond graphs isomorphic (template oriented by the
caller). -/
def specC (its T : LGraph) : Bool := SynKit.Match.isoDecide chgSel (labelledChanges its) (labelledChanges T)

/-! ## Well-formedness (hypotheses of the C03 theorems; decidable, evaluated by the driver) -/

/-- A substrate graph as `smiles_to_graph` produces it: distinct ids, edges between distinct
existing nodes, no parallel edges, no `typesGH` yet, positive bond orders. -/
def WFHost (host : LGraph) : Prop :=
  host.WF ∧ (∀ p ∈ host.nodes, hasKey p.2 "typesGH" = false) ∧
  (∀ e ∈ host.edges, numOf (pyGet e.2.2 "order" (.num 2)) > 0)

def isStr : Val → Bool
  | .str _ => true
  | _ => false

/-- A template (`rule.rc.raw`): a well-formed graph whose nodes carry `typesGH` with no wildcard
element and whose edges carry a numeric, non-negative `order` pair (attribute keys distinct). -/
def WFTemplate (T : LGraph) : Prop :=
  T.WF ∧
  (∀ p ∈ T.nodes, hasKey p.2 "typesGH" = true ∧ tgField p.2 0 0 ≠ .str "*" ∧ tgField p.2 1 0 ≠ .str "*" ∧
     isStr (tgField p.2 0 0) = true) ∧
  (∀ e ∈ T.edges, e.2.2.keys.Nodup ∧ hasKey e.2.2 "order" = true ∧
     ordAt e.2.2 0 = .num (numOf (ordAt e.2.2 0)) ∧ numOf (ordAt e.2.2 0) ≥ 0 ∧
     ordAt e.2.2 1 = .num (numOf (ordAt e.2.2 1)) ∧ numOf (ordAt e.2.2 1) ≥ 0)

instance (host : LGraph) : Decidable (WFHost host) := by unfold WFHost; infer_instance
instance (T : LGraph) : Decidable (WFTemplate T) := by unfold WFTemplate; infer_instance

/-- What the sub-graph search compares in `SynReactor.mappings`. -/
def monoSel : SynKit.Match.Sel := { nodeKeys := ["element", "charge"], edgeKeys := ["order"], hcountRule := true }

/-- The substrate as `its_decompose` would render it: ids, the four label fields with
`_default_tg`'s defaults, `atom_map = id`; bond orders with the default 1.0. -/
def hostProj (host : LGraph) : LGraph :=
  { nodes := host.nodes.map fun p =>
      (p.1, [("element", pyGet p.2 "element" (.str "*")), ("aromatic", pyGet p.2 "aromatic" (.bool false)),
             ("hcount", pyGet p.2 "hcount" (.num 0)), ("charge", pyGet p.2 "charge" (.num 0)),
             ("atom_map", Val.num (2 * (p.1 : Int)))])
    edges := host.edges.map fun e => (e.1, e.2.1, [("order", pyGet e.2.2 "order" (.num 2))]) }

/-- Order change of an ITS edge (product minus reactant, half-units). -/
def delta (a : Attrs) : Int := numOf (ordAt a 1) - numOf (ordAt a 0)

/-- No precision is lost by `round` in the additive branch: wherever the template creates a bond
(reactant order 0) between two atoms the substrate already bonds, the sum of the two orders is a
whole number. -/
def RoundExact (host T : LGraph) (m : Mapping) : Prop :=
  ∀ te ∈ T.edges, ∀ e ∈ host.edges, landsOn m te e.1 e.2.1 = true → ordAt te.2.2 0 = .num 0 →
    (numOf (pyGet e.2.2 "order" (.num 2)) + numOf (ordAt te.2.2 1)) % 2 = 0

instance (host T : LGraph) (m : Mapping) : Decidable (RoundExact host T m) := by unfold RoundExact; infer_instance

/-- Executable form of `IsMono` (theorem `isMonoB_iff`), used to check that every mapping the
implementation glues along satisfies the hypothesis of the C03 theorems. -/
def isMonoB (sel : SynKit.Match.Sel) (H P : LGraph) (m : Mapping) : Bool :=
  decide (m.map (·.1) = P.ids) && decide ((m.map (·.2)).Nodup) &&
  m.all (fun ph => H.ids.contains ph.2 && SynKit.Match.nodeOk sel (H.attrs ph.2) (P.attrs ph.1)) &&
  P.edges.all fun e =>
    match m.get? e.1, m.get? e.2.1 with
    | some hu, some hv =>
      (match H.edge? hu hv with
       | some ea => SynKit.Match.edgeOk sel ea e.2.2
       | none => false)
    | _, _ => false

/-- The host as `_glue_graph` hands it to `_get_explicit_map`: `typesGH` defaults set on the nodes,
then the hydrogens of the matched atoms made explicit. -/
def explicitHost (host : LGraph) (nodes : List Nat) : LGraph :=
  hToExplicit { host with nodes := host.nodes.map prepNode } nodes

/-- Every hydrogen-pair component gives away as many hydrogens as it receives (then the outcome of
`_explicit_h` does not depend on the order in which Python iterates the component's `set`). -/
def componentsBalanced (I : LGraph) : Bool :=
  (components (pairToNodes I)).all fun comp => ((comp.map fun n => dOf I n).sum == 0)

/-- The ITS graphs of the implicit path along a given list of matches (`its_list` before
`_explicit_h`; the exhaustive strategy uses `allMonos monoSel host (left T)`, the other strategies
sub-lists of it). -/
def implicitResults (host T : LGraph) (ms : List Mapping) : List LGraph := ms.map (glue host T)

end SynKit.Reactor

import SynKitModel.GraphMatcherEngine
/-!
# C07 — `graph_morphism.find_graph_isomorphism`, and search-free certificate checkers

* `findGraphIsomorphism`: model of `find_graph_isomorphism(G1, G2, use_defaults, fast_invariant_check)`
  (`synkit/Graph/Matcher/graph_morphism.py`): the optional quick invariants (node count, edge count,
  sorted degree sequence), then VF2 `GraphMatcher(G1, G2, node_match, edge_match).is_isomorphic()` with
  the default categorical matchers (element / atom_map / hcount with defaults `"*"`, 0, 0; `order`
  with default 1) or, without defaults, no attribute compared.  The answer is the `G1 → G2` node
  mapping or `None`.
* `isMonoB` / `isInducedB` / `isIsoB`: executable forms of `IsMono` / `IsInduced` / `IsIso` for a
  GIVEN mapping (no search: polynomial in the size of the graphs), used to check planted or returned
  mappings on graphs that are too large for the enumerating engine.
* `isoInvariants`: necessary conditions for the existence of an isomorphism (node and edge counts,
  degree sequence, base-label and refined WL-1 histograms), used to certify non-isomorphism of large
  one-edit neighbours.
-/
namespace SynKit.GME
open SynKit.Match

/-! ## certificate checkers -/

/-- Executable form of `IsMono` (theorem `isMonoB_iff`). -/
def isMonoB (sel : Sel) (H P : LGraph) (m : Mapping) : Bool :=
  decide (m.map (·.1) = P.ids) && decide ((m.map (·.2)).Nodup) &&
  m.all (fun ph => H.ids.contains ph.2 && nodeOk sel (H.attrs ph.2) (P.attrs ph.1)) &&
  P.edges.all fun e =>
    match m.get? e.1, m.get? e.2.1 with
    | some hu, some hv =>
      (match H.edge? hu hv with
       | some ea => edgeOk sel ea e.2.2
       | none => false)
    | _, _ => false

/-- Non-adjacent pattern nodes stay non-adjacent, for every two assigned pattern nodes. -/
def nonEdgesB (H P : LGraph) (m : Mapping) : Bool :=
  m.all fun a =>
    match m.get? a.1 with
    | some hp => m.all fun b =>
        match m.get? b.1 with
        | some hq => P.hasEdge a.1 b.1 || !H.hasEdge hp hq
        | none => true
    | none => true

/-- Executable form of `IsInduced` (theorem `isInducedB_iff`). -/
def isInducedB (sel : Sel) (H P : LGraph) (m : Mapping) : Bool := isMonoB sel H P m && nonEdgesB H P m

/-- Executable form of `IsIso` (theorem `isIsoB_iff`). -/
def isIsoB (sel : Sel) (H P : LGraph) (m : Mapping) : Bool :=
  isInducedB sel H P m && decide (H.nodes.length = P.nodes.length)

/-! ## invariants of isomorphic graphs -/

/-- `d for _, d in G.degree()` (simple graphs: the number of neighbours), in node order. -/
def degreeSeq (g : LGraph) : List Nat := g.ids.map fun v => (g.neighbors v).length

/-- Necessary for `∃ m, IsIso sel H P m` (theorem `isoInvariants_of_iso`): equal node counts, equal
edge counts, equal degree sequences (as multisets), the base-label histogram and the refined WL-1
histogram of `P` contained in those of `H`. -/
def isoInvariants (sel : Sel) (H P : LGraph) : Bool :=
  decide (H.nodes.length = P.nodes.length) && decide (H.edges.length = P.edges.length) &&
  (degreeSeq P).isPerm (degreeSeq H) &&
  baseContained (wl1 H sel.nodeKeys) (wl1 P sel.nodeKeys) &&
  wlContained (wl1 H sel.nodeKeys) (wl1 P sel.nodeKeys)

/-- Necessary for `∃ m, IsMono sel H P m` (a fortiori for an induced embedding). -/
def containInvariants (sel : Sel) (H P : LGraph) : Bool :=
  decide (P.nodes.length ≤ H.nodes.length) && decide (P.edges.length ≤ H.edges.length) &&
  baseContained (wl1 H sel.nodeKeys) (wl1 P sel.nodeKeys)

/-! ## `find_graph_isomorphism` -/

def findNames : List String := ["element", "atom_map", "hcount"]
def findDefaults : List Val := [.str "*", .num 0, .num 0]

/-- What the matchers compare: with `use_defaults` the categorical matchers on element / atom_map /
hcount and on `order`; without (and no matcher given) nothing.  No hydrogen rule: `hcount` is compared
for equality like the other keys. -/
def findSel (useDefaults : Bool) : Sel :=
  if useDefaults then { nodeKeys := findNames, edgeKeys := ["order"], hcountRule := false }
  else { nodeKeys := [], edgeKeys := [], hcountRule := false }

/-- `data.get(attr, default)` for every compared attribute (order default 1 = 2 half-units). -/
def findPrep (useDefaults : Bool) (g : LGraph) : LGraph :=
  if useDefaults then applyEdgeDefault "order" (.num 2) (applyNodeDefaults findNames findDefaults g) else g

/-- Step 2 of the code, `fast_invariant_check`: node counts, edge counts, sorted degree sequences. -/
def fastInvariants (g1 g2 : LGraph) : Bool :=
  decide (g1.nodes.length = g2.nodes.length) && decide (g1.edges.length = g2.edges.length) &&
  (degreeSeq g1).isPerm (degreeSeq g2)

/-- `find_graph_isomorphism(G1, G2, use_defaults=…, fast_invariant_check=…)` for two `nx.Graph`s:
`some` mapping `G1 → G2` (pairs in `G1`'s node order; VF2's choice among several is not modelled —
the first one of the proven enumerator stands for it) or `none`. -/
def findGraphIsomorphism (useDefaults fast : Bool) (g1 g2 : LGraph) : Option Mapping :=
  if fast && !fastInvariants g1 g2 then none
  else if g2.nodes.length = g1.nodes.length then
    (allInduced (findSel useDefaults) (findPrep useDefaults g2) (findPrep useDefaults g1)).head?
  else none

end SynKit.GME

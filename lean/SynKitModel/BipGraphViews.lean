import SynKitModel.BipGraph
import SynKitModel.Deficiency
import SynKitModel.Petri
/-!
# The graph entry path of the deficiency analysis (C19) and of the siphon / trap search (C20)

`DeficiencyAnalyzer._complex_vectors` and `Petri/structure.py::_is_siphon_indices`,
`_is_trap_indices`, `find_siphons`, `find_traps` read the same kind of object as `build_S` (see
`SynKitModel/BipGraph.lean`): a bipartite NetworkX graph, nodes typed by `kind` / `bipartite`, arcs
carrying `role` and `stoich`, in any of the four graph classes and with arcs written in either
direction. This file models that reading on `BipGraph`; core Lean only.

Anchors (the code as repaired after F16 / F17 and the undirected-input defects):

* `deficiency.py::_complex_vectors(G)` — species order `_species_order(G)` (`speciesRows`), reaction
  nodes in `_split_species_reactions(G)` order (`reactionNodes`, i.e. `G.nodes` order, **not**
  sorted); for every reaction node `r` the incident arcs are `in_edges(r) + out_edges(r)` on a
  directed graph and `G.edges(r)` on an undirected one (`incident`); for every incident arc the
  other end `s_node = v if u == r else u` (`otherEnd`) is looked up in the species index, the role
  decides the side, `int(data.get("stoich", 1))` is added (`incCoeff`, `sideVec`); the two vectors
  go through `add_complex` (`addIComplex`: index of the vector, appended when new) and
  `CG.add_edge(u, v)` (`Deficiency.addArc`) → `complexVectorsOn`.
  `compute_summary` calls it on `_as_bipartite(crn)`, which is always directed
  (`graphComplexVectors`); the helper called on the graph as given is `graphComplexVectorsRaw`.
* `structure.py::_incident_edges`, `_is_siphon_indices`, `_is_trap_indices` — same incident arcs
  (always on `_as_bipartite(crn)`), `S_nodes = {species_nodes_sorted[i] for i in S_idx}`, an arc
  counts when its other end is in `S_nodes`, its role is the one asked for and
  `data.get("stoich", 1) > 0` (`touches`) → `graphSiphonPred`, `graphTrapPred`; the subset search
  of `find_siphons` / `find_traps` is `Petri.findIdx` over that predicate → `graphFindSiphons`,
  `graphFindTraps`.

`viewNet` turns the network a graph describes (`netOfGraph`, a `Stoich.Net`: species and reactions
in `G.nodes` order) into the ordered network the C19 / C20 models work on (`SynKit.Net`: species
sorted by label as `_species_order` does, reactions kept in node order).
`SynKitProofs/BipGraphViewsLemmas.lean` proves that the graph readings equal the network-level
models on `viewNet (netOfGraph g)`.
-/
namespace SynKit.BipGraph
open SynKit SynKit.Store SynKit.Stoich SynKit.NetGraphAlg

/-! ## The ordered network a graph describes -/

def rxnOfEdge (e : Edge) : Rxn := { id := e.id, rule := e.rule, reactants := e.reactants, products := e.products }

/-- Species sorted by label (`_species_order`), reactions in the order given. -/
def viewNet (N : Stoich.Net) : SynKit.Net := { species := sortBy id N.species, reactions := N.edges.map rxnOfEdge }

/-- The network the C19 / C20 models are applied to for the graph `g`. -/
def analysisNet (g : BipGraph) : SynKit.Net := viewNet (netOfGraph g)

/-! ## Incident arcs of a reaction node -/

/-- `in_edges(r) + out_edges(r)` of a directed graph (a self-loop is listed twice), `G.edges(r)` of
an undirected one (every incident edge once). -/
def incident (directed : Bool) (arcs : List BArc) (r : String) : List BArc :=
  if directed then arcs.filter (fun a => a.dst == r) ++ arcs.filter (fun a => a.src == r)
  else arcs.filter (fun a => a.src == r || a.dst == r)

/-- `s_node = v if u == r else u`. -/
def otherEnd (r : String) (a : BArc) : String := if a.src == r then a.dst else a.src

/-! ## `_complex_vectors` -/

/-- What one incident arc of reaction node `r` adds to position `s` of the vector of `role`:
`int(data.get("stoich", 1))` when the role matches and the other end is `s`. -/
def incCoeff (role s r : String) (a : BArc) : Int :=
  if a.role == some role && otherEnd r a == s then a.stoich.getD 1 else 0

/-- `lhs` / `rhs` of one reaction node: position `i` holds what the incident arcs of that role whose
other end is the `i`-th species node add up to. -/
def sideVec (directed : Bool) (arcs : List BArc) (rows : List BNode) (role r : String) : List Int :=
  rows.map fun s => (incident directed arcs r).foldl (fun acc a => acc + incCoeff role s.id r a) 0

/-- A complex as the code stores it when reading a graph: a tuple of Python ints. -/
abbrev IComplex := List Int

/-- `add_complex`: index of `v`, appending it when it has not been seen. -/
def addIComplex (cs : List IComplex) (v : IComplex) : List IComplex × Nat :=
  if cs.contains v then (cs, cs.idxOf v) else (cs ++ [v], cs.length)

/-- One pass of the reaction loop of `_complex_vectors`. -/
def complexStepOn (directed : Bool) (arcs : List BArc) (rows : List BNode)
    (st : List IComplex × Edges) (r : BNode) : List IComplex × Edges :=
  let (cs1, u) := addIComplex st.1 (sideVec directed arcs rows "reactant" r.id)
  let (cs2, v) := addIComplex cs1 (sideVec directed arcs rows "product" r.id)
  (cs2, Deficiency.addArc st.2 (u, v))

/-- `_complex_vectors` on the nodes of `g` with the given arcs, read as a directed / undirected
graph: complexes in first-appearance order and the arcs of the complex graph by index. -/
def complexVectorsOn (g : BipGraph) (directed : Bool) (arcs : List BArc) : List IComplex × Edges :=
  (reactionNodes g).foldl (complexStepOn directed arcs (speciesRows g)) ([], [])

/-- `_complex_vectors(_as_bipartite(G))`: what `compute_summary` works with. -/
def graphComplexVectors (g : BipGraph) : List IComplex × Edges := complexVectorsOn g true (asBipartite g)

/-- `_complex_vectors(G)` on the graph as given (the helper called directly; an undirected graph
takes the `G.edges(r)` branch). -/
def graphComplexVectorsRaw (g : BipGraph) : List IComplex × Edges :=
  complexVectorsOn g g.directed (effArcs g)

def graphComplexes (g : BipGraph) : List IComplex := (graphComplexVectors g).1
def graphComplexArcs (g : BipGraph) : Edges := (graphComplexVectors g).2

/-- The reaction → (reactant complex, product complex) assignment, reaction nodes in the order the
loop visits them. -/
def graphReactionComplexes (g : BipGraph) : List (String × IComplex × IComplex) :=
  (reactionNodes g).map fun r =>
    (r.id, sideVec true (asBipartite g) (speciesRows g) "reactant" r.id,
      sideVec true (asBipartite g) (speciesRows g) "product" r.id)

/-- `nx.connected_components(CG.to_undirected())`. -/
def graphLinkageClasses (g : BipGraph) : List (List Nat) :=
  components (List.range (graphComplexes g).length) (graphComplexArcs g)

/-- `_is_weakly_reversible(CG)`. -/
def graphWeaklyReversible (g : BipGraph) : Bool :=
  (graphLinkageClasses g).all fun C => stronglyConnected (graphComplexArcs g) C

/-- `compute_summary` on a graph, the stoichiometric rank supplied (`Deficiency.computeSummary`):
`_split_species_reactions` raises `ValueError` without species nodes or without reaction nodes. -/
def graphSummary (g : BipGraph) (rank : Nat) : Except Deficiency.Err Deficiency.Summary :=
  if (speciesNodes g).isEmpty || (reactionNodes g).isEmpty then .error .valueError else
  .ok { nSpecies := (speciesNodes g).length, nReactions := (reactionNodes g).length,
        nComplexes := (graphComplexes g).length, nLinkage := (graphLinkageClasses g).length, rank := rank,
        deficiency := ((graphComplexes g).length : Int) - ((graphLinkageClasses g).length : Int) - (rank : Int),
        weaklyReversible := graphWeaklyReversible g }

/-- Coefficient vectors as the graph reading produces them (Python ints) from the network-level
ones (naturals). -/
def liftComplex (v : Deficiency.Complex) : IComplex := v.map Int.ofNat

def liftVectors (p : List Deficiency.Complex × Edges) : List IComplex × Edges := (p.1.map liftComplex, p.2)

/-! ## `_is_siphon_indices`, `_is_trap_indices`, `find_siphons`, `find_traps` -/

/-- `S_nodes = {species_nodes_sorted[i] for i in S_idx}` (node ids). -/
def sNodes (g : BipGraph) (S : List Nat) : List String :=
  (S.filterMap ((speciesRows g)[·]?)).map (·.id)

/-- The inner loop of the predicates: some incident arc of reaction node `r` has its other end in
`Sn`, the role asked for and `data.get("stoich", 1) > 0`. -/
def touchesOn (directed : Bool) (arcs : List BArc) (role r : String) (Sn : List String) : Bool :=
  (incident directed arcs r).any fun a =>
    decide (otherEnd r a ∈ Sn) && a.role == some role && decide (0 < a.stoich.getD 1)

/-- `_is_siphon_indices(G, species_nodes_sorted, reaction_nodes, S_idx)` with
`G = _as_bipartite(crn)`: non-empty, and every reaction node with a positive product arc into the
set has a positive reactant arc from it. -/
def graphSiphonPred (g : BipGraph) (S : List Nat) : Bool :=
  !S.isEmpty && (reactionNodes g).all fun r =>
    !(touchesOn true (asBipartite g) "product" r.id (sNodes g S)) ||
      touchesOn true (asBipartite g) "reactant" r.id (sNodes g S)

/-- `_is_trap_indices`: the mirror image. -/
def graphTrapPred (g : BipGraph) (S : List Nat) : Bool :=
  !S.isEmpty && (reactionNodes g).all fun r =>
    !(touchesOn true (asBipartite g) "reactant" r.id (sNodes g S)) ||
      touchesOn true (asBipartite g) "product" r.id (sNodes g S)

/-- `species_labels[i] for i in S_idx`. -/
def graphLabelsOf (g : BipGraph) (S : List Nat) : List String := S.filterMap ((rowLabels g)[·]?)

/-- `find_siphons(G, max_size)`: the subset search of `Petri.findIdx` over the graph predicate. -/
def graphFindSiphonsIdx (g : BipGraph) (maxSize : Option Nat) : List (List Nat) :=
  Petri.findIdx (graphSiphonPred g) (speciesRows g).length maxSize

def graphFindTrapsIdx (g : BipGraph) (maxSize : Option Nat) : List (List Nat) :=
  Petri.findIdx (graphTrapPred g) (speciesRows g).length maxSize

def graphFindSiphons (g : BipGraph) (maxSize : Option Nat) : List (List String) :=
  (graphFindSiphonsIdx g maxSize).map (graphLabelsOf g)

def graphFindTraps (g : BipGraph) (maxSize : Option Nat) : List (List String) :=
  (graphFindTrapsIdx g maxSize).map (graphLabelsOf g)

/-- Decidable form of `WF` (no condition on reaction labels). -/
def wfCoreB (g : BipGraph) : Bool :=
  decide ((g.nodes.map (·.id)).Nodup) && decide (((speciesNodes g).map nodeKey).Nodup) &&
  g.arcs.all (fun a => decide (0 ≤ a.stoich.getD 1))

end SynKit.BipGraph

import SynKitModel.CrnCanon
import SynKitModel.NautyIR
/-!
# C18 — the individualisation–refinement search of `CRNCanonicalizer`

Mirrors `synkit/CRN/Topo/canon.py` (`CRNCanonicalizer`: `_init_part`, `_sig`, `_refine`, `_label`,
`_search`, `_orbits_from_perms`, `_canon`) on a directed attribute graph (a *view* of a network,
`SynKitModel/CrnCanon.lean`), for the configured `node_attr_keys` / `edge_attr_keys` (`SelD`) and
`timeout_sec = None` (the clock test is not modelled).  `crnSearch` / `crnIr` are the search with
`max_depth = None`; `crnSearchCapped` / `crnIrCapped` (last section) are the search with
`max_depth = d`: depth counter, the test `depth > max_depth` at the entry of every call, the returned
flag that ends every enclosing loop, `(best, perms)` as they stand when the search stops, and the
`RuntimeError` of `_canon` when `best["perm"]` is still `None`.

* A partition is a list of cells, every cell sorted by node id (`sorted(nodes)`, `sorted(sigs[s])`,
  `sorted(rest)`, `sorted(cell)`).  The grouping helpers (`irSplitBy`, `sortNat`, `irTargetCell`,
  `irIndividualise`, `irIsDiscrete`) are those of the sibling model `SynKitModel/NautyIR.lean`.
* `_init_part`: with no node keys one sorted cell holding every node — and no cell at all for the
  empty graph (repair F39; one *empty* cell made `_search` raise `StopIteration`) —, else buckets by
  the tuple `G.nodes[v].get(a, None)`, in increasing key order.  The search is therefore defined on
  every graph: the empty graph has the single leaf `([], [])`.
* `_sig(G, v, part)` on a `DiGraph`: `(node attrs, (in_degree, out_degree), #neighbours in each
  cell, sorted tuple of the selected attributes of the out-arcs)`, neighbours = predecessors ∪
  successors (a self-loop makes `v` its own neighbour and counts once in each degree).
  Predecessors / successors are read off `arc?` over the node list (a NetworkX `DiGraph` has no
  parallel arcs and arcs join existing nodes: `WFD`), so only their *sets* matter, as in the code
  (`set(...)`, degree, `sorted`).
* `_refine`: passes over all cells (signatures w.r.t. the partition at the start of the pass; the
  repaired code has no cache) until a pass splits nothing.  At most `N` passes can split; the
  model runs `N + 1`.
* `_search`: refine; a discrete partition is a leaf, whose permutation is the partition itself
  (the repaired code does not prepend the prefix) and whose label is `_label(G, perm)`; the leaf
  replaces `best` when its label is strictly smaller (and restarts `perms`), is appended to
  `perms` when the label is equal.  Otherwise the first cell with more than one node is
  individualised, members in sorted order.  **No pruning.**
* Labels.  Python builds and compares *strings*.  As in `NautyIR` the model keeps the label
  structured (`CrnLabel`: per node the tuple `get(a, "")`, and the matrix of ordered pairs: `absent`
  for `"0:…"`, `present attrs` for `"1:…"`; the diagonal `i == j`, which the code skips, is a
  constant placeholder `diag` so that all rows have length `n`) and takes the comparison of
  labels as a parameter `lt`.  Every theorem holds for every strict total `lt`; `CrnLabel.lt`
  (lexicographic on the structure) is the instance the driver runs.
* `_orbits_from_perms(perms)`: position-wise merging of `perms[0]` with each later permutation
  = `orbitsUF perms[0] (perms[1:].map (perms[0].zip ·))`.
-/
namespace SynKit.CrnCanon
open SynKit
open SynKit.Canon (sortBy sortNat irDedup irSplitBy ltLex natLt irNormEdgeVal irIsDiscrete irTargetCell
  irIndividualise)

/-! ## Attribute keys -/

/-- `tuple(_freeze(G.nodes[v].get(a, None)) for a in node_attr_keys)`. -/
def crnNodeKey (sel : SelD) (a : Attrs) : List Val := sel.nodeKeys.map a.get

/-- One item of `edge_mult`: `attrs.get(a, None)` for the edge keys (a tuple-valued `order` is
replaced by its sorted tuple). -/
def crnEdgeSigKey (sel : SelD) (a : Attrs) : List Val := sel.edgeKeys.map fun k => irNormEdgeVal k (a.get k)

/-- Node item of a label: `G.nodes[v].get(a, "")`. -/
def crnNodeLabKey (sel : SelD) (a : Attrs) : List Val := sel.nodeKeys.map fun k => Dict.getD a k (.str "")

/-- Arc item of a label: `attrs.get(a, "")`. -/
def crnEdgeLabKey (sel : SelD) (a : Attrs) : List Val := sel.edgeKeys.map fun k => Dict.getD a k (.str "")

/-! ## Refinement -/

/-- `G.successors(v)` as a set, in node order. -/
def crnSuccs (G : LGraph) (v : Nat) : List Nat := G.ids.filter fun w => (G.arc? v w).isSome
/-- `G.predecessors(v)` as a set, in node order. -/
def crnPreds (G : LGraph) (v : Nat) : List Nat := G.ids.filter fun w => (G.arc? w v).isSome
/-- `set(G.predecessors(v)) | set(G.successors(v))`. -/
def crnNbrs (G : LGraph) (v : Nat) : List Nat :=
  G.ids.filter fun w => (G.arc? v w).isSome || (G.arc? w v).isSome

/-- `_sig(G, v, part)`. -/
structure CrnSig where
  attrs : List Val
  inDeg : Nat
  outDeg : Nat
  counts : List Nat
  edges : List (List Val)
deriving DecidableEq, Repr, Inhabited

/-- Python tuple comparison of signatures. -/
def CrnSig.lt (a b : CrnSig) : Bool :=
  if Canon.Val.ltList a.attrs b.attrs then true else if Canon.Val.ltList b.attrs a.attrs then false
  else if natLt a.inDeg b.inDeg then true else if natLt b.inDeg a.inDeg then false
  else if natLt a.outDeg b.outDeg then true else if natLt b.outDeg a.outDeg then false
  else if ltLex natLt a.counts b.counts then true else if ltLex natLt b.counts a.counts then false
  else ltLex Canon.Val.ltList a.edges b.edges

def crnSig (sel : SelD) (G : LGraph) (P : List (List Nat)) (v : Nat) : CrnSig :=
  { attrs := crnNodeKey sel (G.attrs v)
    inDeg := (crnPreds G v).length
    outDeg := (crnSuccs G v).length
    counts := P.map fun cell => ((crnNbrs G v).filter fun w => cell.contains w).length
    edges := sortBy Canon.Val.ltList ((crnSuccs G v).map fun w => crnEdgeSigKey sel ((G.arc? v w).getD [])) }

/-- `_init_part`: `[sorted(G.nodes())] if len(G) else []` without node keys, else the attribute buckets. -/
def crnInitPart (sel : SelD) (G : LGraph) : List (List Nat) :=
  if sel.nodeKeys.isEmpty then (if G.ids.isEmpty then [] else [sortNat G.ids])
  else irSplitBy Canon.Val.ltList (fun v => crnNodeKey sel (G.attrs v)) G.ids

/-- What one pass of `_refine` appends for the cell `c`. -/
def crnRefineCell (sel : SelD) (G : LGraph) (P : List (List Nat)) (c : List Nat) : List (List Nat) :=
  if c.length ≤ 1 then [c]
  else
    let parts := irSplitBy CrnSig.lt (crnSig sel G P) c
    if parts.length > 1 then parts else [sortNat c]

/-- One pass of the `while changed` loop. -/
def crnRefineStep (sel : SelD) (G : LGraph) (P : List (List Nat)) : List (List Nat) :=
  P.flatMap (crnRefineCell sel G P)

/-- The loop: a pass changed something iff it produced more cells. -/
def crnRefineLoop (sel : SelD) (G : LGraph) : Nat → List (List Nat) → List (List Nat)
  | 0, P => P
  | k + 1, P =>
    let P' := crnRefineStep sel G P
    if P'.length = P.length then P' else crnRefineLoop sel G k P'

/-- `_refine(G, part)`. -/
def crnRefine (sel : SelD) (G : LGraph) (P : List (List Nat)) : List (List Nat) :=
  crnRefineLoop sel G (G.nodes.length + 1) P

/-! ## Labels -/

/-- One entry of the matrix of ordered pairs. -/
inductive CrnBit
  | diag
  | absent
  | present (a : List Val)
deriving DecidableEq, Repr, Inhabited

/-- Structured form of the label string: `nodes` is the node segment (one attribute tuple per
entry of the permutation), `rows` the edge segment (row `i` holds the pairs `(i, j)` in the code's
loop order; the skipped diagonal is the placeholder `diag`). -/
structure CrnLabel where
  nodes : List (List Val)
  rows : List (List CrnBit)
deriving DecidableEq, Repr, Inhabited

/-- `"1:" + attrs` when `G.has_edge(u, v)`, else `"0:"`. -/
def crnBit (sel : SelD) (G : LGraph) (u v : Nat) : CrnBit :=
  match G.arc? u v with
  | none => .absent
  | some a => .present (crnEdgeLabKey sel a)

def crnNodeSeg (sel : SelD) (G : LGraph) (s : List Nat) : List (List Val) :=
  s.map fun v => crnNodeLabKey sel (G.attrs v)

def crnRows (sel : SelD) (G : LGraph) (s : List Nat) : List (List CrnBit) :=
  s.zipIdx.map fun ui => s.zipIdx.map fun vj => if ui.2 = vj.2 then CrnBit.diag else crnBit sel G ui.1 vj.1

/-- `_label(G, perm)`. -/
def crnBuildLabel (sel : SelD) (G : LGraph) (s : List Nat) : CrnLabel :=
  { nodes := crnNodeSeg sel G s, rows := crnRows sel G s }

/-- `"0:" < "1:"`, then the attribute tuples (the placeholder only ever meets itself). -/
def crnBitLt (a b : CrnBit) : Bool :=
  match a, b with
  | .diag, .diag => false
  | .diag, _ => true
  | .absent, .present _ => true
  | .present x, .present y => Canon.Val.ltList x y
  | _, _ => false

/-- The concrete order on labels: node segment first, then the rows, each lexicographic. -/
def CrnLabel.lt (a b : CrnLabel) : Bool :=
  if ltLex Canon.Val.ltList a.nodes b.nodes then true else if ltLex Canon.Val.ltList b.nodes a.nodes then false
  else ltLex (ltLex crnBitLt) a.rows b.rows

/-! ## Search -/

/-- `best = {"label", "perm"}` together with `perms` (the leaves whose label equals `best`). -/
structure CrnBest where
  label : CrnLabel
  perm : List Nat
  perms : List (List Nat)
deriving DecidableEq, Repr, Inhabited

/-- The leaf case of `_search`. -/
def crnUpdate (lt : CrnLabel → CrnLabel → Bool) (st : Option CrnBest) (lab : CrnLabel) (perm : List Nat) :
    Option CrnBest :=
  match st with
  | none => some { label := lab, perm := perm, perms := [perm] }
  | some b =>
    if lt lab b.label then some { label := lab, perm := perm, perms := [perm] }
    else if lab = b.label then some { b with perms := b.perms ++ [perm] }
    else some b

/-- `for v in sorted(part[idx])`. -/
def crnChildren (c : List Nat) : List Nat := sortNat c

/-- `_search(G, part, prefix, best, perms, …)`; returns the final `(best, perms)`. -/
def crnSearch (lt : CrnLabel → CrnLabel → Bool) (sel : SelD) (G : LGraph) :
    Nat → List (List Nat) → List Nat → Option CrnBest → Option CrnBest
  | 0, _, _, st => st
  | fuel + 1, P, pfx, st =>
    let P := crnRefine sel G P
    if irIsDiscrete P then
      let perm := P.flatten
      crnUpdate lt st (crnBuildLabel sel G perm) perm
    else
      match irTargetCell P with
      | none => st
      | some (pre, c, post) =>
        (crnChildren c).foldl (fun st v =>
          crnSearch lt sel G fuel (irIndividualise pre c post v) (pfx ++ [v]) st) st

/-- The leaves `(prefix, perm)` of the search tree in visiting order. -/
def crnLeaves (sel : SelD) (G : LGraph) : Nat → List (List Nat) → List Nat → List (List Nat × List Nat)
  | 0, _, _ => []
  | fuel + 1, P, pfx =>
    let P := crnRefine sel G P
    if irIsDiscrete P then [(pfx, P.flatten)]
    else
      match irTargetCell P with
      | none => []
      | some (pre, c, post) =>
        (crnChildren c).flatMap fun v => crnLeaves sel G fuel (irIndividualise pre c post v) (pfx ++ [v])

/-- The label of a leaf (of its permutation; the prefix plays no role). -/
def crnLeafLabel (sel : SelD) (G : LGraph) (l : List Nat × List Nat) : CrnLabel := crnBuildLabel sel G l.2

/-- `_canon`: the search from the initial partition with the empty prefix (depth at most `N`). -/
def crnIrWith (lt : CrnLabel → CrnLabel → Bool) (sel : SelD) (G : LGraph) : Option CrnBest :=
  crnSearch lt sel G (G.nodes.length + 1) (crnInitPart sel G) [] none

/-- All leaves of the search tree. -/
def crnRootLeaves (sel : SelD) (G : LGraph) : List (List Nat × List Nat) :=
  crnLeaves sel G (G.nodes.length + 1) (crnInitPart sel G) []

/-- `best["perm"]` of a search result (`[]` when the code raises `RuntimeError`). -/
def crnOrderOf (r : Option CrnBest) : List Nat :=
  match r with
  | some b => b.perm
  | none => []

/-- `perms` of a search result. -/
def crnPermsOf (r : Option CrnBest) : List (List Nat) :=
  match r with
  | some b => b.perms
  | none => []

/-- The search with the concrete label order. -/
def crnIr (sel : SelD) (G : LGraph) : Option CrnBest := crnIrWith CrnLabel.lt sel G

/-- `canonical_perm`. -/
def crnIrOrder (sel : SelD) (G : LGraph) : List Nat := crnOrderOf (crnIr sel G)

/-- `best["label"]`. -/
def crnIrLabel (sel : SelD) (G : LGraph) : Option CrnLabel := (crnIr sel G).map (·.label)

/-- `sample_permutations`. -/
def crnIrPerms (sel : SelD) (G : LGraph) : List (List Nat) := crnPermsOf (crnIr sel G)

/-- `canon_graph`. -/
def canonIRD (sel : SelD) (G : LGraph) : LGraph := canonBy G (crnIrOrder sel G)

/-- `_orbits_from_perms(perms)`: singletons of `perms[0]`, then position `idx` of every later
permutation merged with position `idx` of the first. -/
def crnOrbitsFromPerms (perms : List (List Nat)) : List (List Nat) :=
  match perms with
  | [] => []
  | first :: rest => orbitsUF first (rest.map fun p => first.zip p)

/-- `orbits`. -/
def crnIrOrbits (sel : SelD) (G : LGraph) : List (List Nat) := crnOrbitsFromPerms (crnIrPerms sel G)

/-! ## The search with a depth cap (`max_depth = d`)

`_search(…, depth, max_depth, start, timeout_sec)` returns `True` as soon as it is entered with
`depth > max_depth` (second test of the body, after the clock test, before refining), and a caller
that receives `True` returns `True` at once: the whole search ends at the FIRST call beyond the cap,
`best` and `perms` keep the values they have then.  There is no pruning.  `_canon` raises
`RuntimeError` when `best["perm"]` is `None`, and otherwise computes canonical graph, orbits and
mappings from `best["perm"]` and `perms` as they are and hands the flag on as `early_stop`.
(A negative `max_depth` stops the root call itself: the `RuntimeError` case; the model takes `d : Nat`.) -/

/-- `_search(…, depth=depth, max_depth=d)`: the final `(best, perms)` and the returned flag.  In the
loop over the members of the target cell the state is `(st, stopped)`: once a child returned `True` the
loop is left (`return True`), which the fold models by passing the state through. -/
def crnSearchCapped (lt : CrnLabel → CrnLabel → Bool) (sel : SelD) (G : LGraph) (d : Nat) :
    Nat → Nat → List (List Nat) → List Nat → Option CrnBest → Option CrnBest × Bool
  | 0, _, _, _, st => (st, false)
  | fuel + 1, depth, P, pfx, st =>
    if depth > d then (st, true)
    else
      let P := crnRefine sel G P
      if irIsDiscrete P then
        let perm := P.flatten
        (crnUpdate lt st (crnBuildLabel sel G perm) perm, false)
      else
        match irTargetCell P with
        | none => (st, false)
        | some (pre, c, post) =>
          (crnChildren c).foldl (fun acc v =>
            if acc.2 then acc
            else crnSearchCapped lt sel G d fuel (depth + 1) (irIndividualise pre c post v) (pfx ++ [v]) acc.1)
            (st, false)

/-- The search of `_canon(max_depth=d, timeout_sec=None)`: from the initial partition, empty prefix,
`depth=0`. -/
def crnIrCappedWith (lt : CrnLabel → CrnLabel → Bool) (sel : SelD) (G : LGraph) (d : Nat) : Option CrnBest × Bool :=
  crnSearchCapped lt sel G d (G.nodes.length + 1) 0 (crnInitPart sel G) [] none

/-- … with the concrete label order: `((best, perms), early)`. -/
def crnIrCapped (sel : SelD) (G : LGraph) (d : Nat) : Option CrnBest × Bool := crnIrCappedWith CrnLabel.lt sel G d

/-- What `_canon` raises. -/
inductive CrnIrError
  | notFound  -- `RuntimeError("Canonical form not found; early stop (max_depth=…, timeout_sec=…)")`
deriving DecidableEq, Repr, Inhabited

/-- Answer of `_canon(max_depth=d)` (what `summary` reports): `(best with perms, early_stop)` or the
`RuntimeError` when no leaf was reached. -/
def crnCanonCapped (sel : SelD) (G : LGraph) (d : Nat) : Except CrnIrError (CrnBest × Bool) :=
  match crnIrCapped sel G d with
  | (none, _) => .error .notFound
  | (some b, early) => .ok (b, early)

/-- Depth of a leaf = number of individualisations on its branch = `depth` of the call that reached it
= length of its prefix. -/
def crnLeafDepth (l : List Nat × List Nat) : Nat := l.1.length

/-- The deepest of a list of leaves. -/
def crnMaxDepth (ls : List (List Nat × List Nat)) : Nat := ls.foldl (fun m l => Nat.max m (crnLeafDepth l)) 0

/-- Depth of the deepest leaf of the (uncapped) search tree. -/
def crnDepth (sel : SelD) (G : LGraph) : Nat := crnMaxDepth (crnRootLeaves sel G)

/-! ## Hypotheses of the theorems -/

/-- The selected attributes are never `None`, never the empty string (`_label` reads an absent
attribute as `""`, `_sig` and the closures of the specification read it as `None`) and `order` is
not tuple valued (`_sig` sorts such a tuple).  True of both views of every network for the node
keys `kind`, `bipartite` and every choice of arc keys (`crnAttrOK_viewBip`, `crnAttrOK_viewSpecies`). -/
def valIsTup : Option Val → Bool
  | some (.tup _) => true
  | _ => false

def CrnAttrOK (sel : SelD) (G : LGraph) : Prop :=
  (∀ p ∈ G.nodes, ∀ k ∈ sel.nodeKeys, Dict.get? p.2 k ≠ some Val.none ∧ Dict.get? p.2 k ≠ some (.str "")) ∧
  (∀ e ∈ G.edges, ∀ k ∈ sel.edgeKeys, Dict.get? e.2.2 k ≠ some Val.none ∧ Dict.get? e.2.2 k ≠ some (.str "") ∧
    (k = "order" → valIsTup (Dict.get? e.2.2 k) = false))

instance (sel : SelD) (G : LGraph) : Decidable (CrnAttrOK sel G) := by unfold CrnAttrOK; infer_instance

end SynKit.CrnCanon

import SynKitModel.Reactor
import SynKitModel.ReactorInv
import SynKitModel.SubgraphSearch
/-!
# The composed reactor (implicit path of `SynReactor`), executable  (C05; reused by C04/C11)

The stages of rule application are modelled one by one elsewhere — pattern preparation, inversion
and the glue step in `SynKitModel/Reactor.lean` (C03), the sub-graph searches in
`SynKitModel/SubgraphSearch.lean` (C06) and `SynKitModel/Match.lean`, the repaired pruning and the
abstract pipeline in `SynKitModel/ReactorInv.lean`.  This file holds their COMPOSITION, the object the
theorem `C05.statement_concrete` (`SynKitProofs/Props/C05.lean`) is about:

    concrete maxGroup (compSearch strict thr) : ReactorInv.Reactor LGraph

and `Reactor.results / kept / resultsUnpruned` of `ReactorInv.lean` run it.  The definitions used to
live on the proof side (`SynKitProofs/ReactorLink.lean`, `SynKitProofs/Props/C05.lean`); they are here —
unchanged, under their old names — so that the driver can execute exactly the term the theorems
speak about (`reactor.results`, `Driver/Reactor.lean`) and the harness can compare it end to end with
the real `SynReactor` (`harness/props/c05.py`, stream `e2e`).

Everything is total and executable (core Lean only).
-/
namespace SynKit.ReactorLink
open SynKit SynKit.Match SynKit.Reactor SynKit.ReactorInv

/-- Erase `atom_map` from every node (`its_decompose` and `_invert_template` write `atom_map = node id`
into the graphs they build; neither the sub-graph search nor the glue step reads it). -/
def noMap (G : LGraph) : LGraph :=
  { nodes := G.nodes.map fun p => (p.1, Dict.erase p.2 "atom_map"), edges := G.edges }

/-- Backward application glues the inverted template. -/
def orient (dir : Bool) (T : LGraph) : LGraph := if dir then invert T else T

/-- What two ITS graphs are compared on: the label pair of every atom and the order pair of every
bond (the selection the repaired pruning uses for the rule's automorphisms as well). -/
def itsSel : Sel := { nodeKeys := ["typesGH"], edgeKeys := ["order"], hcountRule := false }

/-- "The same reaction": equal, or well formed and isomorphic on `itsSel` (an equivalence relation on
all graphs; on well-formed graphs it is isomorphism). -/
def ItsEquiv (a b : LGraph) : Prop := a = b ∨ (a.WF ∧ b.WF ∧ ∃ m, IsIso itsSel a b m)

/-- Rendering: an ill-formed graph renders to no reaction. -/
def render (G : LGraph) : List LGraph := if G.WF then [G] else []

/-- The modelled implicit path of `SynReactor` as an instance of `ReactorInv.Reactor`:
* pattern = reactant side of the oriented template (`its_decompose`), without the `atom_map`
  attribute that nothing downstream reads (`allMonos_noMap`);
* exhaustive search = the proven enumerator on `monoSel`; the component-aware search is a
  parameter (`comp`), the fallback search is `searchBt` of the two;
* pruning = the repaired `_prune_by_rule_automorphisms` (draft fix 0015): `pruneByAut` over the
  automorphisms of the oriented template on `itsSel` (label pairs, order pairs);
* glue = `_glue_graph`; outside the property's domain (substrate or template not well formed) and for
  an ill-formed outcome nothing is rendered;
* results are compared up to `ItsEquiv`. -/
def concrete (maxGroup : Nat) (comp : LGraph → LGraph → List Mapping) : Reactor LGraph where
  sel := monoSel
  pattern := fun dir T => noMap (left (orient dir T))
  search := fun s H P =>
    match s with
    | .all => allMonos monoSel H P
    | .comp => comp H P
    | .bt => searchBt (comp H P) (allMonos monoSel H P)
  prune := fun dir T ms => pruneByAut maxGroup (left (orient dir T)).ids (auts itsSel (orient dir T)) ms
  glue := fun dir host T m =>
    if WFHost host ∧ WFTemplate (orient dir T) then render (glue host (orient dir T) m) else []
  equiv := ItsEquiv

end SynKit.ReactorLink

namespace SynKit.ReactorInv
open SynKit SynKit.Match SynKit.Reactor

/-- The component-aware strategy as the reactor calls it: `findComp` of the C06 model on `monoSel`,
no `max_results`, any `strict_cc_count` / `threshold`; nothing on ill-formed graphs. -/
def compSearch (strict : Bool) (thr : Nat) (H P : LGraph) : List Mapping :=
  if H.WF ∧ P.WF then SynKit.SubgraphSearch.findComp monoSel H P 0 strict thr else []

/-- `SynReactor(host, T, invert=dir, strategy=s, implicit_temp=True, explicit_h=False)` as modelled:
the composed reactor with the defaults of the real call (`max_group = 5040` unless given,
`strict_cc_count`, `threshold`). -/
def theReactor (maxGroup : Nat) (strict : Bool) (thr : Nat) : Reactor LGraph :=
  SynKit.ReactorLink.concrete maxGroup (compSearch strict thr)

end SynKit.ReactorInv

/-!
# Small graph algorithms over `Nat` nodes (core Lean only, self-contained)

* undirected **connected components** by folding over the edge list and merging classes
  (`labelling`, `sameClass`, `components`), specification `Conn` = reflexive-symmetric-transitive
  closure of the edge relation;
* directed **reachability** with fuel (`reachSet`, `reachable`) and the stabilisation test
  `closed`, specification `Reach` = reflexive-transitive closure.

Theorems are in `SynKitProofs/NetGraphAlg.lean`.
-/
namespace SynKit.NetGraphAlg

abbrev Edges := List (Nat × Nat)

/-- Specification: `a` and `b` are joined by a path that may use every edge in both directions. -/
inductive Conn (E : Edges) : Nat → Nat → Prop
  | refl (a : Nat) : Conn E a a
  | edge {a b : Nat} : (a, b) ∈ E → Conn E a b
  | symm {a b : Nat} : Conn E a b → Conn E b a
  | trans {a b c : Nat} : Conn E a b → Conn E b c → Conn E a c

/-- Specification: `b` is reachable from `a` along directed edges (zero or more steps). -/
inductive Reach (E : Edges) : Nat → Nat → Prop
  | refl (a : Nat) : Reach E a a
  | step {a b c : Nat} : Reach E a b → (b, c) ∈ E → Reach E a c

/-! ## components -/

/-- Merge the class of `v` into the class of `u`: everything labelled like `v` is relabelled like `u`. -/
def merge (f : Nat → Nat) (u v : Nat) : Nat → Nat := fun x => if f x = f v then f u else f x

/-- Class label of every node after merging along all edges, starting from singletons. -/
def labelling (E : Edges) : Nat → Nat := E.foldl (fun f e => merge f e.1 e.2) id

def sameClass (E : Edges) (x y : Nat) : Bool := labelling E x == labelling E y

/-- One representative per label, in first-appearance order. -/
def reps (f : Nat → Nat) (nodes : List Nat) : List Nat :=
  nodes.foldl (fun acc x => if acc.any (fun r => f r == f x) then acc else acc ++ [x]) []

/-- Classes of `nodes` under the label function `f`, in first-appearance order of their first member;
members in `nodes` order. -/
def classesOf (f : Nat → Nat) (nodes : List Nat) : List (List Nat) :=
  (reps f nodes).map fun r => nodes.filter fun x => f x == f r

/-- Connected components of the undirected graph `(nodes, E)`. -/
def components (nodes : List Nat) (E : Edges) : List (List Nat) := classesOf (labelling E) nodes

/-! ## directed reachability -/

/-- One sweep over the edges: add the head of every edge whose tail is already in the set. -/
def sweep (E : Edges) (S : List Nat) : List Nat :=
  E.foldl (fun S e => if S.contains e.1 && !S.contains e.2 then S ++ [e.2] else S) S

/-- `fuel` sweeps starting from `S`. -/
def reachSet (E : Edges) : Nat → List Nat → List Nat
  | 0, S => S
  | n + 1, S => reachSet E n (sweep E S)

/-- Stabilisation test: no edge leaves the set. -/
def closed (E : Edges) (S : List Nat) : Bool := E.all fun e => !S.contains e.1 || S.contains e.2

def reachable (E : Edges) (fuel : Nat) (u v : Nat) : Bool := (reachSet E fuel [u]).contains v

/-- Edges with both ends inside `C` (NetworkX `G.subgraph(C)`). -/
def restrict (E : Edges) (C : List Nat) : Edges := E.filter fun e => C.contains e.1 && C.contains e.2

/-- `nx.is_strongly_connected(G.subgraph(C))` for non-empty `C`: every member reaches every member
inside `C`.  Fuel = `C.length` sweeps (one sweep adds at least one new node until stable). -/
def stronglyConnected (E : Edges) (C : List Nat) : Bool :=
  C.all fun u => C.all fun v => reachable (restrict E C) C.length u v

/-- The stabilisation certificate that goes with `stronglyConnected`: every reach set computed
there is closed (always true; proved under this test rather than by a counting argument). -/
def stronglyConnectedStable (E : Edges) (C : List Nat) : Bool :=
  C.all fun u => closed (restrict E C) (reachSet (restrict E C) C.length [u])

end SynKit.NetGraphAlg

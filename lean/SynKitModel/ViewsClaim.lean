import SynKitModel.ViewsRaw
/-!
# C16: when is a round trip claimed for a degraded view?

The raw streams of `harness/props/c16.py` export a network, degrade the exported view (strip or
rename attributes, strip `kind`, drop the per-reaction maps, hand `via` over in another form, give
`parse_rxns` explicit rules) and import it again.  A round trip is only *claimed* when the degraded
view still determines the network.  This file states those conditions as executable predicates, so
that the driver decides them (`views.claim_bip_raw`, `views.claim_species_raw`,
`views.claim_items`) and the theorems of `Props/C16.lean` are about exactly what is gated:

* decidable forms of the hypotheses of the C16 theorems (`wfNetB`, `noIdClashB`, `stoichKeptB`,
  `twoSidedB`, `wfStrNetB`);
* `PrefixDisjoint`, `RBGraph.setKind`, `bipRawClaim`, `bipRawIdsKept` (bipartite importer);
* the attribute-name layer of `bipartite_to_hypergraph` (`ABGraph`, `AttrNames`, `ABGraph.read`,
  `ofBipartiteAttr`, consistent renaming);
* `ArcsUniform`, `AllOnes`, the degradations of a species arc, `speciesRawClaim`;
* the input forms of `parse_rxns` (`ItemsInput`), `itemsClaim`.

Core Lean only; every def total and executable.
-/
namespace SynKit.Views

/-! ## 0. Decidable forms of the hypotheses of the C16 theorems -/

/-- Pointwise comparison of two lists of the same length. -/
def all2 {α β : Type} (r : α → β → Bool) : List α → List β → Bool
  | [], [] => true
  | a :: as, b :: bs => r a b && all2 r as bs
  | _, _ => false

/-- `WfSide`, decided. -/
def wfSideB (m : Side) : Bool := decide m.keys.Nodup && m.all fun kv => decide (0 < kv.2)

/-- `WfNet`, decided. -/
def wfNetB (N : Net) : Bool :=
  decide N.ids.Nodup &&
  N.rxns.all (fun e => wfSideB e.reactants && wfSideB e.products &&
    (!e.reactants.isEmpty || !e.products.isEmpty) && decide (e.rule ≠ "")) &&
  decide N.species.Nodup && N.rxnSpecies.all (fun s => decide (s ∈ N.species))

/-- `NoIdClash`, decided. -/
def noIdClashB (f : BipFlags) (N : Net) : Bool :=
  f.integerIds || N.species.all fun s => N.rxns.all fun e =>
    decide (withPrefix f.speciesPrefix s ≠ withPrefix f.reactionPrefix e.id)

/-- Every coefficient of the network is 1. -/
def AllOnes (N : Net) : Prop :=
  ∀ e ∈ N.rxns, (∀ kv ∈ e.reactants, kv.2 = 1) ∧ (∀ kv ∈ e.products, kv.2 = 1)

def allOnesB (N : Net) : Bool :=
  N.rxns.all fun e => e.reactants.all (fun kv => decide (kv.2 = 1)) && e.products.all (fun kv => decide (kv.2 = 1))

/-- `StoichKept`, decided. -/
def stoichKeptB (f : BipFlags) (N : Net) : Bool := f.includeStoich || allOnesB N

/-- `TwoSided`, decided. -/
def twoSidedB (N : Net) : Bool := N.rxns.all fun e => !e.reactants.isEmpty && !e.products.isEmpty

def wfLabelsB (m : Side) : Bool := m.all fun kv => WfLabel kv.1

/-- `WfRule`, decided. -/
def wfRuleB (r : String) : Bool := decide (r ≠ "") && r.toList.all fun c => !isWs c

/-- `WfStrNet`, decided. -/
def wfStrNetB (N : Net) : Bool :=
  N.rxns.all fun e => wfSideB e.reactants && wfSideB e.products &&
    (!e.reactants.isEmpty || !e.products.isEmpty) &&
    wfLabelsB e.reactants && wfLabelsB e.products && wfRuleB e.rule

/-! ## 1. Bipartite importer -/

/-- **Prefix disjointness** — the condition under which the prefix heuristic of
`bipartite_to_hypergraph` re-classifies the nodes of a string-id view exported with the prefixes
`sp` / `rp` exactly as the exporter tagged them: no reaction node id `rp ++ id` starts with `sp`.
(The importer tests `startswith(species_prefix)` first, so a species node `sp ++ s` is a species
whatever else it starts with; nothing has to be asked of the species, and a reaction node always
starts with `rp`.  In particular `sp = ""` only passes for a network without reactions.) -/
def PrefixDisjoint (sp rp : String) (N : Net) : Prop :=
  ∀ e ∈ N.rxns, (NodeId.str (rp ++ e.id)).startsWith sp = false

instance (sp rp : String) (N : Net) : Decidable (PrefixDisjoint sp rp N) := by
  unfold PrefixDisjoint; infer_instance

/-- Overwrite the `kind` attribute of the nodes selected by `p` with `k` (`none` = the attribute
is deleted; any value other than `"species"` / `"reaction"` is treated alike by the importer). -/
def RBGraph.setKind (p : NodeId → Bool) (k : Option String) (g : RBGraph) : RBGraph :=
  { g with nodes := g.nodes.map fun n => if p n.id then { n with kind := k } else n }

/-- The classification of a degraded node `n'` is the tag `n` of the exported node: the tag is
still there, or it is unusable and the prefix heuristic gives the same answer. -/
def kindOK (o : ImpOpts) (n n' : RNode) : Bool :=
  decide (n'.kind = n.kind) ||
  (decide (n'.kind ≠ some "species") && decide (n'.kind ≠ some "reaction") &&
    (if n.kind = some "species" then n.id.startsWith o.speciesPrefix
     else !n.id.startsWith o.speciesPrefix && n.id.startsWith o.reactionPrefix))

/-- `G.nodes[n][mol_attr]` as the importer uses it (`mol_attr=None` switches the pass off). -/
def effMol (o : ImpOpts) (n : RNode) : Option String := if o.molOn then n.mol else none

/-- A degraded node `n'` says about its exported node `n` everything the importer asks: the id,
the classification, for a species node the label (read from the label attribute, else `str(id)`)
and the molecule label, for a reaction node the rule (read from the label attribute, else
`default_rule`). The edge id is compared separately (`idOK`). -/
def nodeOK (o : ImpOpts) (n n' : RNode) : Bool :=
  decide (n'.id = n.id) && kindOK o n n' &&
  (if n.kind = some "species" then
     decide (n'.spLabel.getD n.id.toStr = n.spLabel.getD n.id.toStr) && decide (effMol o n' = n.mol)
   else decide (n'.rxLabel.getD o.defaultRule = n.rxLabel.getD "r"))

/-- A degraded arc carries the same ends and the same coefficient (absent = 1). -/
def edgeOK (e e' : BEdge) : Bool :=
  decide (e'.src = e.src) && decide (e'.dst = e.dst) && decide (e'.stoich.getD 1 = e.stoich.getD 1)

/-- The edge id of a reaction node is the exported one, or absent (then it is synthesised). -/
def idOK (n₁ n' : RNode) : Bool :=
  decide (n₁.kind ≠ some "reaction") || decide (n'.edgeId = none) || decide (n'.edgeId = n₁.edgeId)

/-- The edge id of a reaction node is the exported one. -/
def idKept (n₁ n' : RNode) : Bool :=
  decide (n₁.kind ≠ some "reaction") || decide (n'.edgeId = n₁.edgeId)

/-- The exported view the degraded graph is compared with (ids left out, they are compared with
`bipIdRef`; `mol` = the molecule labels are expected to survive). -/
def bipRef (f : BipFlags) (mol : Bool) (N : Net) : RBGraph :=
  (toBipartite { f with includeEdgeIdAttr := false, includeMol := f.includeMol && mol } N).toRaw

/-- The exported view with the edge ids on the reaction nodes. -/
def bipIdRef (f : BipFlags) (N : Net) : RBGraph :=
  (toBipartite { f with includeEdgeIdAttr := true } N).toRaw

/-- **Claim condition of the stream `bip-importer-raw`.** `g'` is the graph as the importer reads
it (nodes in `G.nodes` order, the arcs of each reaction node in `in_edges` / `out_edges` order,
reaction nodes in node order). A round trip of the reactions (ids aside) is claimed when the
network is well formed, its string-id view does not clash, the export kept the coefficients, and
`g'` still says node by node and arc by arc what the exported view said. -/
def bipRawClaimWith (mol : Bool) (f : BipFlags) (o : ImpOpts) (N : Net) (g' : RBGraph) : Bool :=
  wfNetB N && noIdClashB f N && stoichKeptB f N &&
  all2 (nodeOK o) (bipRef f mol N).nodes g'.nodes &&
  all2 edgeOK (bipRef f mol N).edges g'.edges &&
  all2 idOK (bipIdRef f N).nodes g'.nodes

/-- Molecule labels expected to survive, or expected to be gone. -/
def bipRawClaim (f : BipFlags) (o : ImpOpts) (N : Net) (g' : RBGraph) : Bool :=
  bipRawClaimWith true f o N g' || bipRawClaimWith false f o N g'

/-- Every reaction node still carries its exported edge id (then the ids are claimed too). -/
def bipRawIdsKept (f : BipFlags) (N : Net) (g' : RBGraph) : Bool :=
  all2 idKept (bipIdRef f N).nodes g'.nodes

/-! ### The attribute-name layer of `bipartite_to_hypergraph`

`ViewsRaw.lean` takes a node "as the importer reads it". The reading itself — `d.get(name)` with
the names passed as `species_label_attr`, `reaction_label_attr`, `reaction_edge_id_attr`,
`stoich_attr`, `mol_attr` — is modelled here (it is what `raw_bgraph` of the harness does). -/

structure ANode where
  id : NodeId
  attrs : Dict String := []
deriving Repr, Inhabited

structure AEdge where
  src : NodeId
  dst : NodeId
  attrs : Dict Nat := []
deriving Repr, Inhabited

structure ABGraph where
  nodes : List ANode := []
  edges : List AEdge := []
deriving Repr, Inhabited

structure AttrNames where
  spLabel : String := "label"
  rxLabel : String := "label"
  edgeId : String := "edge_id"
  stoich : String := "stoich"
  mol : Option String := some "mol"
deriving Repr, Inhabited

/-- The graph as the importer reads it under the attribute names `a`. -/
def ABGraph.read (a : AttrNames) (g : ABGraph) : RBGraph :=
  { nodes := g.nodes.map fun n =>
      { id := n.id, kind := n.attrs.get? "kind", spLabel := n.attrs.get? a.spLabel,
        rxLabel := n.attrs.get? a.rxLabel, edgeId := n.attrs.get? a.edgeId,
        mol := a.mol.bind n.attrs.get? }
    edges := g.edges.map fun e =>
      { src := e.src, dst := e.dst, stoich := e.attrs.get? a.stoich, role := none } }

/-- `bipartite_to_hypergraph(G, species_prefix=, reaction_prefix=, species_label_attr=,
reaction_edge_id_attr=, reaction_label_attr=, stoich_attr=, default_rule=, mol_attr=)`. -/
def ofBipartiteAttr (genId : GenId) (sp rp defaultRule : String) (a : AttrNames) (g : ABGraph) :
    Except Err Net :=
  ofBipartiteRaw genId
    { speciesPrefix := sp, reactionPrefix := rp, defaultRule := defaultRule, molOn := a.mol.isSome }
    (g.read a)

/-- Rename the keys of an attribute dict. -/
def renameKeys {α : Type} (ρ : String → String) (d : Dict α) : Dict α := d.map fun kv => (ρ kv.1, kv.2)

/-- Rename attributes throughout a graph (node attributes by `ρ`, arc attributes by `σ`). -/
def ABGraph.rename (ρ σ : String → String) (g : ABGraph) : ABGraph :=
  { nodes := g.nodes.map fun n => { n with attrs := renameKeys ρ n.attrs }
    edges := g.edges.map fun e => { e with attrs := renameKeys σ e.attrs } }

/-- The same renaming applied to the importer's keyword arguments. -/
def AttrNames.rename (ρ σ : String → String) (a : AttrNames) : AttrNames :=
  { spLabel := ρ a.spLabel, rxLabel := ρ a.rxLabel, edgeId := ρ a.edgeId, stoich := σ a.stoich,
    mol := a.mol.map ρ }

/-! ## 2. Species-graph importer -/

/-- **Uniform arcs** — every two reactions that share a species pair `(a, b)` (reactant `a`,
product `b`) carry the same coefficient of `a` and the same coefficient of `b`. Then the legacy
single values `stoich_r` / `stoich_p` of the arc (the minimum over its reactions) say everything
the per-reaction maps say. -/
def ArcsUniform (N : Net) : Prop :=
  ∀ e ∈ N.rxns, ∀ e' ∈ N.rxns, ∀ ra ∈ e.reactants, ∀ pa ∈ e.products,
    ∀ rb ∈ e'.reactants, ∀ pb ∈ e'.products, ra.1 = rb.1 → pa.1 = pb.1 → ra.2 = rb.2 ∧ pa.2 = pb.2

instance (N : Net) : Decidable (ArcsUniform N) := by unfold ArcsUniform; infer_instance

instance (N : Net) : Decidable (AllOnes N) := by unfold AllOnes; infer_instance

/-- Delete `stoich_r_map` (`r`) and / or `stoich_p_map` (`p`) from an arc. -/
def REdge.dropMaps (r p : Bool) (a : REdge) : REdge :=
  { a with rMap := if r then none else a.rMap, pMap := if p then none else a.pMap }

/-- Delete the legacy `stoich_r` / `stoich_p` from an arc. -/
def REdge.dropLegacy (a : REdge) : REdge := { a with stoichR := none, stoichP := none }

/-- `via` of one reaction handed over as the bare id instead of a one-element collection. -/
def REdge.viaScalar (a : REdge) : REdge :=
  { a with via := match a.via with
      | .seq [x] => .scalar x
      | v => v }

/-- Delete `via` from an arc. -/
def REdge.dropVia (a : REdge) : REdge := { a with via := .absent }

def RSGraph.mapEdges (φ : REdge → REdge) (g : RSGraph) : RSGraph := { g with edges := g.edges.map φ }

/-- The reaction ids an arc names, when it names any (`none`: a synthetic id is made up). -/
def REdge.viaList? (a : REdge) : Option (List String) :=
  match a.via with
  | .seq (x :: xs) => some (x :: xs)
  | .scalar x => if x = "" then none else some [x]
  | _ => none

/-- A degraded arc `a'` of `g'` says about the exported arc `a` of `g` everything the importer
asks: the labels of its ends, the same set of reaction ids, and for each of them the same two
coefficients (per-reaction map, else legacy value, else 1). -/
def arcOK (g g' : RSGraph) (a a' : REdge) : Bool :=
  decide (g'.labelOf a'.src = g.labelOf a.src) && decide (g'.labelOf a'.dst = g.labelOf a.dst) &&
  (match a.viaList?, a'.viaList? with
   | some xs, some ys =>
     xs.all (fun x => decide (x ∈ ys)) && ys.all (fun y => decide (y ∈ xs)) &&
     xs.all fun eid =>
       decide (coeffFor a'.rMap a'.stoichR eid = coeffFor a.rMap a.stoichR eid) &&
       decide (coeffFor a'.pMap a'.stoichP eid = coeffFor a.pMap a.stoichP eid)
   | _, _ => false)

/-- **Claim condition of the stream `species-importer-raw`.** `g'` is the graph as the importer
reads it (arcs in `G.edges` order). Ids and stoichiometry are claimed when the network is well
formed and two-sided and `g'` still says arc by arc what the exported species graph said. -/
def speciesRawClaim (includeMol : Bool) (N : Net) (g' : RSGraph) : Bool :=
  wfNetB N && twoSidedB N &&
  all2 (arcOK (toSpeciesGraph includeMol N).toRaw g') (toSpeciesGraph includeMol N).toRaw.edges g'.edges

/-! ## 3. `parse_rxns` input forms -/

/-- What `parse_rxns(lines, rules=...)` may be handed. -/
inductive ItemsInput
  /-- an iterable of `(line, rule | None)` tuples (a plain string = `(line, None)`) -/
  | tuples (xs : List (List Char × Option String))
  /-- a mapping `line -> rule | None` (its items, in dict order; keys are distinct) -/
  | mapping (xs : List (List Char × Option String))
  /-- an iterable of plain strings with `rules=None` or a sequence of the same length -/
  | lines (ls : List (List Char)) (rules : Option (List (Option String)))
deriving Repr, Inhabited

/-- The `(line, explicit rule)` pairs an input denotes; a `rules=` sequence of another length is
the documented `ValueError`. -/
def ItemsInput.pairs : ItemsInput → Except Err (List (List Char × Option String))
  | .tuples xs => .ok xs
  | .mapping xs => .ok xs
  | .lines ls none => .ok (ls.map fun l => (l, none))
  | .lines ls (some rs) => if ls.length = rs.length then .ok (ls.zip rs) else .error .valueError

/-- `parse_rxns(input, default_rule=, parse_rule_from_suffix=, prefer_suffix=)` on a fresh
hypergraph. -/
def parseRxnsInput (parseSuffix preferSuffix : Bool) (defaultRule : String) (inp : ItemsInput) :
    Except Err Net :=
  match inp.pairs with
  | .error e => .error e
  | .ok ps =>
    match parseItemsFrom parseSuffix preferSuffix defaultRule {} ps with
    | .ok st => .ok st.net
    | .error e => .error e

/-- The reactions in the order `hypergraph_to_rxn_strings` prints them. -/
def printedRxns (f : StrFlags) (N : Net) : List Rxn := if f.sort then sortRxns N.rxns else N.rxns

/-- **Claim condition of the stream `parse-input-forms`.** The lines are the lines the printer
prints for `N` (labels and rules well formed), and every rule is told: either the lines carry no
suffix at all and each comes with its rule given explicitly, or the lines carry the rule suffix,
suffix parsing is on, and the suffix wins (`prefer_suffix`, or no explicit rule is given). -/
def itemsClaim (f : StrFlags) (parseSuffix preferSuffix : Bool) (N : Net)
    (ps : List (List Char × Option String)) : Bool :=
  wfStrNetB N && decide (ps.map (·.1) = fmtLines f N) &&
  ((!f.includeRule && !f.includeId &&
      decide (ps.map (·.2) = (printedRxns f N).map fun e => some e.rule)) ||
   (f.includeRule && parseSuffix && (preferSuffix || ps.all fun p => p.2.isNone)))

end SynKit.Views

import SynKitModel.Match
/-!
# Model of the common-subgraph matchers (C12)

`synkit/Graph/Matcher/mcs_matcher.py` (`MCSMatcher`, "main" variant) and
`synkit/Graph/MTG/mcs_matcher.py` ("mtg" variant: G1 is always the pattern, one edge attribute,
an edge whose order is absent / not a number never matches, no automorphism pruning).

Modelled: `__init__` (closures), `_edge_match`, `_invert_mapping`, `_prune_graph`,
`_prepare_orientation`, `_search_subgraphs`, `find_common_subgraph` (with `mcs_mol=False`),
`get_mappings`, `last_size`.  Not modelled: `mcs_mol`, `find_rc_mapping`, `_componentwise_mcs`.

VF2 (`GraphMatcher(host, sub_pat, …).subgraph_isomorphisms_iter()`) is replaced by the proven
enumerator `Match.allInduced`; the closures the code hands to VF2 are written out as Lean
definitions (`nodeMatchPy`, `edgeMatchPy`, `edgeMatchMtg`), and the engine (which compares
attribute dicts with `.get` equality) is run on *normalised* graphs whose single node label `L`
/ edge label `E` is built so that `.get` equality on it is exactly the Python closure
(`SynKitProofs/McsLemmas.lean`: `nodeOk_norm`, `edgeOk_norm`).
-/
namespace SynKit.Mcs
open SynKit SynKit.Match

/-! ## Configuration and the closures as the code writes them -/

inductive Variant | main | mtg
deriving Repr, DecidableEq, Inhabited

structure Cfg where
  /-- `node_attrs` / `node_label_names` -/
  nodeKeys : List String := ["element"]
  /-- `node_defaults` / `node_label_defaults` (zipped with the keys, as `generic_node_match` does) -/
  nodeDefaults : List Val := [Val.str "*"]
  /-- `edge_attrs` (main) / `[edge_attribute]` (mtg: exactly one key) -/
  edgeKeys : List String := ["order"]
  variant : Variant := .main
  /-- `prune_automorphisms` (main variant only) -/
  prune : Bool := false
  /-- `prune_wc` with `(element_key, wildcard_element)` (main variant only); `none` = `prune_wc=False` -/
  pruneWc : Option (String × Val) := none
deriving Inhabited

inductive Err | valueError
deriving Repr, DecidableEq

/-- `MCSMatcher.__init__` (main variant): defaults for absent arguments, the length check, and
`edge_attrs or ["order"]` (an empty list is falsy). -/
def Cfg.initMain (nodeAttrs : Option (List String)) (nodeDefaults : Option (List Val))
    (edgeAttrs : Option (List String)) (prune : Bool) (pruneWc : Option (String × Val)) :
    Except Err Cfg :=
  let na := nodeAttrs.getD ["element"]
  let nd := nodeDefaults.getD (List.replicate na.length (Val.str "*"))
  if nd.length ≠ na.length then .error .valueError
  else .ok { nodeKeys := na, nodeDefaults := nd
             edgeKeys := (match edgeAttrs with | some (x :: xs) => x :: xs | _ => ["order"])
             variant := .main, prune := prune, pruneWc := pruneWc }

/-- MTG `MCSMatcher.__init__`: no length check (`zip` truncates), one edge attribute. -/
def Cfg.initMtg (nodeNames : Option (List String)) (nodeDefaults : Option (List Val))
    (edgeAttr : Option String) : Cfg :=
  let na := nodeNames.getD ["element"]
  { nodeKeys := na, nodeDefaults := nodeDefaults.getD (List.replicate na.length (Val.str "*"))
    edgeKeys := [edgeAttr.getD "order"], variant := .mtg, prune := false, pruneWc := none }

/-- `d.get(k, dflt)`: the default is used only when the key is absent (a stored `None` stays `None`). -/
def dget (a : Attrs) (k : String) (d : Val) : Val := Dict.getD a k d

/-- `generic_node_match(attrs, defaults, [eq, …])`:
`all(a.get(k, d) == b.get(k, d) for k, d in zip(attrs, defaults))`. -/
def nodeMatchPy (keys : List String) (defaults : List Val) (a b : Attrs) : Bool :=
  (keys.zip defaults).all fun kd => dget a kd.1 kd.2 == dget b kd.1 kd.2

/-- `float(v)` on an attribute value, in half-units; `none` = `TypeError`/`ValueError`
(`None`, tuples; strings are assumed not to parse as numbers). -/
def toFloat? : Val → Option Int
  | .num h => some h
  | .bool b => some (if b then 2 else 0)
  | _ => none

/-- One round of the loop in `MCSMatcher._edge_match` (main variant):
both `None` → ignored; `float(hv) != float(pv)` → mismatch; not castable → `hv != pv`. -/
def edgeAttrMatchPy (hv pv : Val) : Bool :=
  if hv = Val.none ∧ pv = Val.none then true
  else match toFloat? hv, toFloat? pv with
    | some x, some y => x == y
    | _, _ => hv == pv

/-- `MCSMatcher._edge_match` (main variant). -/
def edgeMatchPy (keys : List String) (h p : Attrs) : Bool :=
  keys.all fun k => edgeAttrMatchPy (h.get k) (p.get k)

/-- `float(h.get(attr)) == float(p.get(attr))`, any exception → `False` (MTG variant). -/
def edgeAttrMatchMtg (hv pv : Val) : Bool :=
  match toFloat? hv, toFloat? pv with
  | some x, some y => x == y
  | _, _ => false

/-- MTG `_edge_match` (`keys` is the one-element list `[edge_attribute]`). -/
def edgeMatchMtg (keys : List String) (h p : Attrs) : Bool :=
  keys.all fun k => edgeAttrMatchMtg (h.get k) (p.get k)

/-- The node closure of a configuration (`self.node_match`), host attrs first. -/
def nodeMatch (cfg : Cfg) (h p : Attrs) : Bool := nodeMatchPy cfg.nodeKeys cfg.nodeDefaults h p

/-- The edge closure of a configuration (`self._edge_match`), host attrs first. -/
def edgeMatch (cfg : Cfg) (h p : Attrs) : Bool :=
  match cfg.variant with
  | .main => edgeMatchPy cfg.edgeKeys h p
  | .mtg => edgeMatchMtg cfg.edgeKeys h p

/-- Automorphism pruning is an option of the main variant only. -/
def Cfg.pruneAut (cfg : Cfg) : Bool := decide (cfg.variant = .main) && cfg.prune

/-! ## Normalisation: one label per node / edge on which `.get` equality is the closure -/

def normNodeAttrs (cfg : Cfg) (a : Attrs) : Attrs :=
  [("L", Val.tup ((cfg.nodeKeys.zip cfg.nodeDefaults).map fun kd => dget a kd.1 kd.2))]

/-- Main variant: a castable value becomes the number it casts to, anything else stays.
MTG variant: a non-castable value becomes a tag that differs between host and pattern, so it
never matches. -/
def normEdgeVal (cfg : Cfg) (host : Bool) (v : Val) : Val :=
  match toFloat? v with
  | some h => Val.num h
  | none =>
    match cfg.variant with
    | .main => v
    | .mtg => Val.str (if host then "h" else "p")

def normEdgeAttrs (cfg : Cfg) (host : Bool) (a : Attrs) : Attrs :=
  [("E", Val.tup (cfg.edgeKeys.map fun k => normEdgeVal cfg host (a.get k)))]

def normGraph (cfg : Cfg) (host : Bool) (g : LGraph) : LGraph :=
  { nodes := g.nodes.map fun p => (p.1, normNodeAttrs cfg p.2)
    edges := g.edges.map fun e => (e.1, e.2.1, normEdgeAttrs cfg host e.2.2) }

/-- The selection the engine is run with on normalised graphs. -/
def theSel : Sel := { nodeKeys := ["L"], edgeKeys := ["E"], hcountRule := false }

/-! ## Graph helpers -/

/-- `G.subgraph(S).copy()`: the induced sub-graph (node order of `G`). -/
def induce (g : LGraph) (S : List Nat) : LGraph :=
  { nodes := g.nodes.filter fun p => p.1 ∈ S
    edges := g.edges.filter fun e => e.1 ∈ S ∧ e.2.1 ∈ S }

/-- `_prune_graph`: with `prune_wc` drop the nodes whose `element_key` attribute is the wildcard. -/
def used (cfg : Cfg) (g : LGraph) : LGraph :=
  match cfg.variant, cfg.pruneWc with
  | .main, some (key, wc) => induce g ((g.nodes.filter fun p => p.2.get key ≠ wc).map (·.1))
  | _, _ => g

/-- `itertools.combinations(xs, k)` (lexicographic in positions). -/
def combinations {α : Type} : Nat → List α → List (List α)
  | 0, _ => [[]]
  | _ + 1, [] => []
  | k + 1, x :: xs => (combinations k xs).map (x :: ·) ++ combinations (k + 1) xs

/-- `range(n, 0, -1)`. -/
def levels : Nat → List Nat
  | 0 => []
  | n + 1 => (n + 1) :: levels n

/-- What one level of the search looks at: for every `k`-subset of the pattern nodes (in
`combinations` order) every induced embedding of the induced sub-pattern into the host.
`P`, `H` are the normalised graphs. -/
def levelCands (P H : LGraph) (k : Nat) : List Mapping :=
  (combinations k P.ids).flatMap fun S => allInduced theSel H (induce P S)

/-! ## The search loop of `_search_subgraphs` -/

structure St where
  /-- `seen` (keys `tuple(sorted(inv.items()))`; the model's mappings are all written in pattern
  node order, so equal item sets are equal lists) -/
  seen : List Mapping := []
  /-- `host_sets_seen` -/
  hostSets : List (List Nat) := []
  /-- `mappings`, in append order -/
  out : List Mapping := []
  /-- `level_found` -/
  found : Bool := false
  /-- `best_size` -/
  best : Nat := 0
deriving Inhabited

/-- Equality of two `frozenset`s given as lists. -/
def sameSet (a b : List Nat) : Bool := a.all (fun x => x ∈ b) && b.all (fun x => x ∈ a)

/-- Body of `for iso in gm.subgraph_isomorphisms_iter()`. -/
def visit (prune : Bool) (st : St) (m : Mapping) : St :=
  if m ∈ st.seen then st
  else
    let st1 := { st with seen := m :: st.seen }
    if prune then
      if st1.hostSets.any (sameSet (m.map (·.2))) then st1
      else { st1 with hostSets := m.map (·.2) :: st1.hostSets, out := st1.out ++ [m], found := true }
    else { st1 with out := st1.out ++ [m], found := true }

/-- `for k in range(max_k, 0, -1): …` with both `break`s. -/
def loop (prune mcs : Bool) (cands : Nat → List Mapping) : List Nat → St → St
  | [], st => st
  | k :: ks, st =>
    if mcs && st.best != 0 && k < st.best then st
    else
      let st1 := (cands k).foldl (visit prune) { st with found := false }
      if st1.found then
        let st2 := { st1 with best := k }
        if mcs then st2 else loop prune mcs cands ks st2
      else loop prune mcs cands ks st1

/-! ## Final sort: key `(-len(d), tuple(sorted(d.items())))` -/

def insertBy {α : Type} (le : α → α → Bool) (x : α) : List α → List α
  | [] => [x]
  | y :: ys => if le x y then x :: y :: ys else y :: insertBy le x ys

/-- Stable insertion sort (Python's `sort` is stable). -/
def isort {α : Type} (le : α → α → Bool) : List α → List α
  | [] => []
  | x :: xs => insertBy le x (isort le xs)

def pairLt (a b : Nat × Nat) : Bool := a.1 < b.1 || (a.1 == b.1 && a.2 < b.2)

/-- `sorted(d.items())`. -/
def sortItems (m : Mapping) : Mapping := isort (fun a b => !pairLt b a) m

/-- Python tuple comparison `a <= b`. -/
def lexLe : List (Nat × Nat) → List (Nat × Nat) → Bool
  | [], _ => true
  | _ :: _, [] => false
  | a :: as, b :: bs => pairLt a b || (a == b && lexLe as bs)

def keyLe (a b : Mapping) : Bool :=
  decide (a.length > b.length) || (a.length == b.length && lexLe (sortItems a) (sortItems b))

/-- `_search_subgraphs(pattern, host, mcs=…)` → (`mappings`, `_last_size`).  The MTG variant's
inline loop is the same with `prune_automorphisms` off and `_last_size` in the role of
`best_size`. -/
def search (cfg : Cfg) (mcs : Bool) (P H : LGraph) : List Mapping × Nat :=
  let P' := normGraph cfg false P
  let H' := normGraph cfg true H
  let maxK := min P.nodes.length H.nodes.length
  let st := loop cfg.pruneAut mcs (levelCands P' H') (levels maxK) {}
  let ms := if mcs && st.best != 0 then st.out.filter (fun m => m.length == st.best) else st.out
  let ms := isort keyLe ms
  let last :=
    match cfg.variant with
    | .main => if st.best != 0 then st.best else (match ms with | m :: _ => m.length | [] => 0)
    | .mtg => st.best
  (ms, last)

/-! ## `find_common_subgraph`, `get_mappings` -/

structure Result where
  /-- `_mappings` (pattern → host) -/
  mappings : List Mapping := []
  /-- `_last_size` -/
  lastSize : Nat := 0
  /-- `_last_pattern_is_G1` (`none` until a search has run).  The MTG class has no such field:
  its pattern is always G1, modelled as `some true`. -/
  patternIsG1 : Option Bool := none
deriving Repr, DecidableEq, Inhabited

def find (cfg : Cfg) (mcs : Bool) (G1 G2 : LGraph) : Result :=
  match cfg.variant with
  | .mtg =>
    let r := search cfg mcs G1 G2
    { mappings := r.1, lastSize := r.2, patternIsG1 := some true }
  | .main =>
    let A := used cfg G1
    let B := used cfg G2
    if A.nodes.length ≤ B.nodes.length then
      let r := search cfg mcs A B
      { mappings := r.1, lastSize := r.2, patternIsG1 := some true }
    else
      let r := search cfg mcs B A
      { mappings := r.1, lastSize := r.2, patternIsG1 := some false }

/-- `d[k] = v` on an insertion-ordered dict with `Nat` keys. -/
def dictSet : Mapping → Nat → Nat → Mapping
  | [], k, v => [(k, v)]
  | (k', v') :: rest, k, v => if k' = k then (k', v) :: rest else (k', v') :: dictSet rest k v

/-- `_invert_mapping`: `{b: a for a, b in m.items()}` (a later pair overwrites an earlier one
with the same value; on injective mappings this is the list of swapped pairs). -/
def invert (m : Mapping) : Mapping := m.foldl (fun acc ab => dictSet acc ab.2 ab.1) []

/-- The list of swapped pairs. -/
def Mapping.inverse (m : Mapping) : Mapping := m.map fun ab => (ab.2, ab.1)

/-- `get_mappings(direction)`. -/
def Result.getMappings (r : Result) (direction : String) : Except Err (List Mapping) :=
  if direction = "pattern_to_host" ∨ r.patternIsG1 = none then .ok r.mappings
  else if direction ≠ "G1_to_G2" ∧ direction ≠ "G2_to_G1" then .error .valueError
  else
    match r.patternIsG1 with
    | none => .ok r.mappings
    | some pg1 =>
      .ok (r.mappings.map fun m =>
        if direction = "G1_to_G2" then (if pg1 then m else invert m)
        else (if pg1 then invert m else m))

def Result.g1ToG2 (r : Result) : List Mapping :=
  match r.getMappings "G1_to_G2" with | .ok l => l | .error _ => []

def Result.g2ToG1 (r : Result) : List Mapping :=
  match r.getMappings "G2_to_G1" with | .ok l => l | .error _ => []

/-! ## Specification -/

/-- Presence and order of a bond agree: `e₁` is the bond between two mapped atoms in the first
graph, `e₂` the bond between their images. -/
def EdgeAgree (cfg : Cfg) (e₁ e₂ : Option Attrs) : Prop :=
  match e₁, e₂ with
  | some a, some b => edgeMatch cfg b a = true
  | none, none => True
  | _, _ => False

instance (cfg : Cfg) (e₁ e₂ : Option Attrs) : Decidable (EdgeAgree cfg e₁ e₂) := by
  unfold EdgeAgree; split <;> infer_instance

/-- `m` (pairs (node of `G₁`, node of `G₂`)) is a common induced sub-graph of `G₁` and `G₂`:
injective both ways, selected node labels agree, and between any two mapped atoms the bond is
present on both sides with matching order or absent on both sides. -/
def IsCommonInduced (cfg : Cfg) (G₁ G₂ : LGraph) (m : Mapping) : Prop :=
  (m.map (·.1)).Nodup ∧ (∀ p ∈ m.map (·.1), p ∈ G₁.ids) ∧
  (m.map (·.2)).Nodup ∧ (∀ h ∈ m.map (·.2), h ∈ G₂.ids) ∧
  (∀ ph ∈ m, nodeMatch cfg (G₂.attrs ph.2) (G₁.attrs ph.1) = true) ∧
  (∀ ph ∈ m, ∀ qh ∈ m, EdgeAgree cfg (G₁.edge? ph.1 qh.1) (G₂.edge? ph.2 qh.2))

instance (cfg : Cfg) (G₁ G₂ : LGraph) (m : Mapping) : Decidable (IsCommonInduced cfg G₁ G₂ m) := by
  unfold IsCommonInduced; infer_instance

/-- Brute-force: is there a common induced sub-graph with exactly `k` nodes?
(`existsOfSize_iff` in `SynKitProofs/Props/C12.lean`). -/
def existsOfSize (cfg : Cfg) (G₁ G₂ : LGraph) (k : Nat) : Bool :=
  !(levelCands (normGraph cfg false G₁) (normGraph cfg true G₂) k).isEmpty

end SynKit.Mcs

import SynKitModel.Views
/-!
# C16: the importers on graphs / inputs the exporters do not produce

`Views.lean` models the importers on what the exporters hand them (all nodes tagged with
`kind` and `label`, every species arc with `via` / `rules` / per-reaction stoichiometry maps,
plain reaction lines).  The real functions accept more; this file models those documented
entry points so that the correspondence run reaches them:

* `bipartite_to_hypergraph` on graphs whose nodes lack `kind` (prefix heuristic, then the degree
  heuristic), lack the label / `edge_id` / `mol` attributes, with the keyword arguments
  `species_prefix`, `reaction_prefix`, `default_rule`, `mol_attr=None`
  (the attribute-name keywords are resolved by the harness adapter: it reads the attribute under
  the name it passes to the importer);
* `species_graph_to_hypergraph` on arcs without `via` (one synthetic reaction per arc), with `via`
  as a list / tuple / single id, without the per-reaction maps (legacy `stoich_r` / `stoich_p`),
  without any stoichiometry (default 1), with `rules` absent or a single value, nodes whose id
  differs from their label (relabelled graphs), `default_rule`, `mol_attr=None`;
* `parse_rxns` with per-line explicit rules (tuples, mapping, `rules=`) and `prefer_suffix`.

Core Lean only; every def total and executable.
-/
namespace SynKit.Views

/-- `str(node)`. -/
def NodeId.toStr : NodeId → String
  | .str s => s
  | .int n => toString n

/-- `isinstance(n, str) and n.startswith(p)`. -/
def NodeId.startsWith (n : NodeId) (p : String) : Bool :=
  match n with
  | .str s => p.toList.isPrefixOf s.toList
  | .int _ => false

/-! ## 1. `bipartite_to_hypergraph` on arbitrary attributed digraphs -/

/-- A node as the importer reads it: `d.get("kind")`, `d.get(species_label_attr)`,
`d.get(reaction_label_attr)`, `d.get(reaction_edge_id_attr)`, `d.get(mol_attr)`. -/
structure RNode where
  id : NodeId
  kind : Option String := none
  spLabel : Option String := none
  rxLabel : Option String := none
  edgeId : Option String := none
  mol : Option String := none
deriving Repr, DecidableEq, Inhabited

structure RBGraph where
  nodes : List RNode := []
  edges : List BEdge := []
deriving Repr, Inhabited

structure ImpOpts where
  speciesPrefix : String := "S:"
  reactionPrefix : String := "R:"
  defaultRule : String := "r"
  /-- `mol_attr is not None` -/
  molOn : Bool := true
deriving Repr, Inhabited

def RBGraph.node? (g : RBGraph) (i : NodeId) : Option RNode := g.nodes.find? (·.id = i)

/-- The first classification loop: `kind`, else the prefix heuristic. -/
def classifyTagged (o : ImpOpts) (g : RBGraph) : List NodeId × List NodeId :=
  g.nodes.foldl (fun acc n =>
    if n.kind = some "species" then (acc.1 ++ [n.id], acc.2)
    else if n.kind = some "reaction" then (acc.1, acc.2 ++ [n.id])
    else if n.id.startsWith o.speciesPrefix then (acc.1 ++ [n.id], acc.2)
    else if n.id.startsWith o.reactionPrefix then (acc.1, acc.2 ++ [n.id])
    else acc) ([], [])

/-- Both loops: if nothing was classified, every node with an outgoing arc is a species and
every node with an incoming arc is a reaction (a node can be both). -/
def classify (o : ImpOpts) (g : RBGraph) : List NodeId × List NodeId :=
  let c := classifyTagged o g
  if c.1.isEmpty && c.2.isEmpty then
    ((g.nodes.filter fun n => g.edges.any (·.src = n.id)).map (·.id),
     (g.nodes.filter fun n => g.edges.any (·.dst = n.id)).map (·.id))
  else c

def rawSide (g : RBGraph) (speciesNodes : List NodeId) (ends : List (NodeId × Option Nat)) : Side :=
  ends.foldl (fun m us =>
    if us.1 ∈ speciesNodes then
      match g.node? us.1 with
      | some n => accum m (n.spLabel.getD us.1.toStr) (us.2.getD 1)
      | none => m
    else m) []

def rawOfRNode (o : ImpOpts) (g : RBGraph) (speciesNodes : List NodeId) (rnode : NodeId) : RawRxn :=
  let ins := (g.edges.filter (·.dst = rnode)).map (fun e => (e.src, e.stoich))
  let outs := (g.edges.filter (·.src = rnode)).map (fun e => (e.dst, e.stoich))
  let nd := g.node? rnode
  { rnode := rnode
    reactants := rawSide g speciesNodes ins
    products := rawSide g speciesNodes outs
    eid := nd.bind (·.edgeId)
    rule := (nd.bind (·.rxLabel)).getD o.defaultRule }

/-- The `species_to_mol` pass.  Python walks the `species_nodes` *set*; the order only matters
when two species nodes with different `mol` share a label, which the harness never generates. -/
def importMolRaw (o : ImpOpts) (g : RBGraph) (speciesNodes : List NodeId) (N : Net) : Net :=
  if o.molOn then
    (g.nodes.filter (fun n => decide (n.id ∈ speciesNodes))).foldl (fun N n =>
      match n.mol with
      | some m =>
        let l := n.spLabel.getD n.id.toStr
        if l ∈ N.species then { N with mol := N.mol.set l m } else N
      | none => N) N
  else N

/-- `bipartite_to_hypergraph(G, species_prefix=, reaction_prefix=, default_rule=, mol_attr=)`. -/
def ofBipartiteRaw (genId : GenId) (o : ImpOpts) (g : RBGraph) : Except Err Net :=
  let c := classify o g
  match importRxns genId {} ((sortBy NodeId.le c.2).map (rawOfRNode o g c.1)) with
  | .ok N => .ok (importMolRaw o g c.1 N)
  | .error e => .error e

/-- An exported graph as a raw graph (every node tagged and labelled). -/
def BGraph.toRaw (g : BGraph) : RBGraph :=
  { nodes := g.nodes.map fun n =>
      { id := n.id, kind := some (match n.kind with | .species => "species" | .reaction => "reaction"),
        spLabel := some n.label, rxLabel := some n.label, edgeId := n.edgeId, mol := n.mol }
    edges := g.edges }

/-! ## 2. `species_graph_to_hypergraph` on arbitrary attributed digraphs -/

/-- `attrs.get("via")`: absent / falsy, a `set`/`list`/`tuple` (in its iteration order), or
anything else (taken as one id). -/
inductive ViaAttr
  | absent
  | seq (xs : List String)
  | scalar (x : String)
deriving Repr, DecidableEq, Inhabited

/-- `attrs.get("rules")`: `None`, a `set`, or one value that is added as it is. -/
inductive RulesAttr
  | absent
  | set (xs : List String)
  | scalar (x : String)
deriving Repr, DecidableEq, Inhabited

structure REdge where
  src : String
  dst : String
  via : ViaAttr := .absent
  rules : RulesAttr := .absent
  stoichR : Option Nat := none
  stoichP : Option Nat := none
  rMap : Option (Dict Nat) := none
  pMap : Option (Dict Nat) := none
deriving Repr, Inhabited

/-- Node ids travel as `str(node)` (the only use the importer makes of a node id, besides the
hash of a synthetic reaction id, which is a parameter). -/
structure RSGraph where
  nodes : List SNode := []
  edges : List REdge := []
deriving Repr, Inhabited

def RSGraph.labelOf (g : RSGraph) (i : String) : String :=
  match g.nodes.find? (·.id = i) with
  | some n => n.label.getD i
  | none => i

/-- `eids` of one arc. -/
def REdge.eids (genArc : GenArc) (a : REdge) : List String :=
  match a.via with
  | .seq (x :: xs) => x :: xs
  | .scalar x => if x = "" then [genArc a.src a.dst] else [x]
  | _ => [genArc a.src a.dst]

def RulesAttr.toList : RulesAttr → List String
  | .absent => []
  | .set xs => xs
  | .scalar x => [x]

/-- Coefficient of one side for one reaction id: per-reaction map, else the legacy value, else 1. -/
def coeffFor (m : Option (Dict Nat)) (legacy : Option Nat) (eid : String) : Nat :=
  match m.bind (·.get? eid) with
  | some c => c
  | none => legacy.getD 1

/-- First pass: group arcs by reaction id (`G.edges(data=True)` order = the order given). -/
def collectEntriesRaw (genArc : GenArc) (g : RSGraph) : List Entry :=
  g.edges.foldl (fun es a =>
    let sr := g.labelOf a.src
    let sp := g.labelOf a.dst
    (a.eids genArc).foldl (fun es eid =>
      updEntry es eid sr sp (coeffFor a.rMap a.stoichR eid) (coeffFor a.pMap a.stoichP eid) a.rules.toList) es) []

def materialiseRaw (defaultRule : String) : Net → List Entry → Except Err Net
  | N, [] => .ok N
  | N, x :: rest =>
    match N.addRxn x.reactants x.products (x.rules.head?.getD defaultRule) x.eid with
    | .ok N' => materialiseRaw defaultRule N' rest
    | .error e => .error e

def importMolSRaw (molOn : Bool) (g : RSGraph) (N : Net) : Net :=
  if molOn then
    g.nodes.foldl (fun N n =>
      match n.mol with
      | some m =>
        let l := n.label.getD n.id
        if l ∈ N.species then { N with mol := N.mol.set l m } else N
      | none => N) N
  else N

/-- `species_graph_to_hypergraph(G, default_rule=, mol_attr=, species_label_attr=)`. -/
def ofSpeciesGraphRaw (genArc : GenArc) (defaultRule : String) (molOn : Bool) (g : RSGraph) : Except Err Net :=
  match materialiseRaw defaultRule {} (collectEntriesRaw genArc g) with
  | .ok N => .ok (importMolSRaw molOn g N)
  | .error e => .error e

/-- The rules a rebuilt reaction may carry (`next(iter(rules))` of a Python set). -/
def ruleCandidatesRaw (genArc : GenArc) (defaultRule : String) (g : RSGraph) : List (String × List String) :=
  (collectEntriesRaw genArc g).map fun x => (x.eid, if x.rules.isEmpty then [defaultRule] else x.rules)

/-- An exported species graph as a raw graph, arcs in `G.edges` order. -/
def SGraph.toRaw (g : SGraph) : RSGraph :=
  { nodes := g.nodes
    edges := g.edgesIter.map fun a =>
      { src := a.src, dst := a.dst, via := .seq a.via, rules := .set a.rules,
        stoichR := some a.stoichR, stoichP := some a.stoichP, rMap := some a.rMap, pMap := some a.pMap } }

/-! ## 3. `parse_rxns` with per-line explicit rules -/

/-- `re.search(r"\|\s*rule\s*=\s*[^\s]+", line)`. -/
def hasRuleSuffix : List Char → Bool
  | [] => false
  | c :: cs => (c = '|' && (matchRuleAt (cs.dropWhile isWs)).isSome) || hasRuleSuffix cs

/-- `parse_rxns(items, default_rule=, parse_rule_from_suffix=, prefer_suffix=)` after the input
has been normalised to `(line, explicit_rule | None)` pairs (tuples, mapping items, or lines
zipped with `rules=`; the harness does that normalisation). -/
def parseItemsFrom (parseSuffix preferSuffix : Bool) (defaultRule : String) :
    PState → List (List Char × Option String) → Except Err PState
  | st, [] => .ok st
  | st, (l, ex) :: rest =>
    let pl := match ex with
      | some r =>
        if preferSuffix && parseSuffix && hasRuleSuffix l then parseLine none true l
        else parseLine (some r) false l
      | none =>
        if parseSuffix then parseLine none true l else parseLine (some defaultRule) false l
    match pl with
    | .error e => .error e
    | .ok pl =>
      match st.addGen pl with
      | .error e => .error e
      | .ok st' => parseItemsFrom parseSuffix preferSuffix defaultRule st' rest

end SynKit.Views

import SynKitModel.Basic
/-!
# Model of the network views (C16)

Mirrors `synkit/CRN/Hypergraph/conversion.py` (bipartite graph, species graph, reaction
strings), `rxn.py` (`RXNSide.from_str`, `__repr__`) and the string entry points of
`hypergraph.py` (`add_rxn_from_str`, `parse_rxns`, the tail of `add_rxn`).

Conventions
* A network is what `CRNHyperGraph` stores: the species `set` (duplicate-free list), the
  `edges` dict (insertion-ordered list of reactions, keyed by `id`) and `species_to_mol`.
  The two incidence indices are not stored: by the store invariant proved for C15 they are
  exact, so "`species_to_in_edges.get(s) or species_to_out_edges.get(s)`" is modelled as
  "`s` occurs on a side of some stored reaction".
* NetworkX `DiGraph`: node list and edge list in insertion order; `add_node`/`add_edge` on an
  existing key update the attribute dict in place (`dict.update`), which is what makes the
  un-prefixed string-id view collide when a species is named like a reaction id.
  `G.in_edges(v)` / `G.out_edges(v)` iterate in insertion order of the arcs at `v`, i.e. the
  global insertion order restricted to `v`.
* Python `set` iteration order (hash order) is modelled by list order; every gate of the
  correspondence is insensitive to it (it sorts), and so are the theorems (`List.Perm`,
  lookups).
* `hash(...)`-derived ids are a parameter (`genId`), never computed.
* Strings: labels/rules/ids are `String`; the text layer works on `List Char`.
  `\d`, `int()` are modelled on ASCII digits only (labels that *start* with a non-ASCII
  decimal digit are outside `WfLabel`; elsewhere in a label they never meet the regex).
-/
namespace SynKit.Views

abbrev Side := Dict Nat

structure Rxn where
  id : String
  rule : String
  reactants : Side
  products : Side
deriving Repr, DecidableEq, Inhabited

structure Net where
  species : List String := []
  rxns : List Rxn := []
  mol : Dict String := []
deriving Repr, DecidableEq, Inhabited

inductive Err | keyError | valueError | indexError
deriving Repr, DecidableEq

def Rxn.speciesOf (e : Rxn) : List String := e.reactants.keys ++ e.products.keys
def Net.ids (N : Net) : List String := N.rxns.map (·.id)
/-- Species that occur in some stored reaction (= species with a non-empty index entry). -/
def Net.rxnSpecies (N : Net) : List String := N.rxns.flatMap Rxn.speciesOf

/-! ## Generic helpers: insertion sort, accumulate -/

/-- Insertion of `x` into a list sorted by `le` (after all elements `≤`-before it: stable). -/
def insertBy {α : Type} (le : α → α → Bool) (x : α) : List α → List α
  | [] => [x]
  | y :: ys => if le y x then y :: insertBy le x ys else x :: y :: ys

/-- Python `sorted` (stable) as an insertion sort; structural, so `decide` evaluates it. -/
def sortBy {α : Type} (le : α → α → Bool) : List α → List α
  | [] => []
  | x :: xs => insertBy le x (sortBy le xs)

def strLe (a b : String) : Bool := !(decide (b < a))

def sortStrs (xs : List String) : List String := sortBy strLe xs
/-- `sorted(side.keys())` followed by a lookup of each key: for a dict (distinct keys) this is
the list of items sorted by key. -/
def sortSide (m : Side) : Side := sortBy (fun a b => strLe a.1 b.1) m
/-- `sorted(H.edges.items())`: by id (ids are dict keys, so no ties). -/
def sortRxns (es : List Rxn) : List Rxn := sortBy (fun a b => strLe a.id b.id) es

/-- `out[k] = out.get(k, 0) + c`. -/
def accum (out : Side) (k : String) (c : Nat) : Side := out.set k (out.getD k 0 + c)

/-- `RXNSide._normalize_any` on a mapping with natural-number counts: drop zero counts,
accumulate. -/
def normSide (m : Side) : Side :=
  m.foldl (fun out kv => if kv.2 > 0 then accum out kv.1 kv.2 else out) []

def normRule (rule : String) : String := if rule = "" then "r" else rule

/-- Tail of `add_rxn` with an explicit id (`edge_id=str(eid)`): key check, normalisation of the
sides, empty check, registration of species. -/
def Net.addRxn (N : Net) (r p : Side) (rule : String) (eid : String) : Except Err Net :=
  let r := normSide r
  let p := normSide p
  if eid ∈ N.ids then .error .keyError
  else if r.isEmpty && p.isEmpty then .error .valueError
  else
    let e : Rxn := ⟨eid, normRule rule, r, p⟩
    .ok { N with rxns := N.rxns ++ [e], species := e.speciesOf.foldl setAdd N.species }

/-! ## 1. Bipartite view -/

inductive NodeId
  | str (s : String)
  | int (n : Nat)
deriving Repr, DecidableEq, Inhabited

/-- Order used by `sorted(reaction_nodes)`; mixed str/int never occurs in an exported graph
(Python would raise `TypeError`). -/
def NodeId.le : NodeId → NodeId → Bool
  | .str a, .str b => strLe a b
  | .int a, .int b => decide (a ≤ b)
  | .int _, .str _ => true
  | .str _, .int _ => false

inductive Kind | species | reaction
deriving Repr, DecidableEq, Inhabited

inductive Role | reactant | product
deriving Repr, DecidableEq, Inhabited

structure BNode where
  id : NodeId
  bipartite : Nat
  label : String
  kind : Kind
  edgeId : Option String := none
  mol : Option String := none
deriving Repr, DecidableEq, Inhabited

structure BEdge where
  src : NodeId
  dst : NodeId
  stoich : Option Nat
  role : Option Role
deriving Repr, DecidableEq, Inhabited

structure BGraph where
  nodes : List BNode := []
  edges : List BEdge := []
deriving Repr, DecidableEq, Inhabited

def BGraph.hasNode (g : BGraph) (i : NodeId) : Bool := g.nodes.any (·.id = i)
def BGraph.node? (g : BGraph) (i : NodeId) : Option BNode := g.nodes.find? (·.id = i)

/-- `G.add_node(nid, **attrs)`: append, or `dict.update` of the existing attribute dict
(given keys overwrite, absent optional keys stay). -/
def upsertNode (ns : List BNode) (n : BNode) : List BNode :=
  match ns with
  | [] => [n]
  | m :: rest =>
    if m.id = n.id then
      { n with edgeId := n.edgeId.orElse (fun _ => m.edgeId), mol := n.mol.orElse (fun _ => m.mol) } :: rest
    else m :: upsertNode rest n

/-- `G.add_edge(u, v, **attrs)`. -/
def upsertEdge (es : List BEdge) (e : BEdge) : List BEdge :=
  match es with
  | [] => [e]
  | m :: rest =>
    if m.src = e.src ∧ m.dst = e.dst then
      { e with stoich := e.stoich.orElse (fun _ => m.stoich), role := e.role.orElse (fun _ => m.role) } :: rest
    else m :: upsertEdge rest e

structure BipFlags where
  speciesPrefix : Option String := some "S:"
  reactionPrefix : Option String := some "R:"
  bipS : Nat := 0
  bipR : Nat := 1
  includeStoich : Bool := true
  includeRole : Bool := true
  includeIsolated : Bool := true
  integerIds : Bool := false
  includeEdgeIdAttr : Bool := false
  includeMol : Bool := false
deriving Repr, DecidableEq, Inhabited

/-- `_as_bipartite(H, ...)` calls the exporter with these flags. -/
def asBipartiteFlags (sp rp : String) (integerIds includeStoich : Bool) : BipFlags :=
  { speciesPrefix := some sp, reactionPrefix := some rp, integerIds := integerIds, includeStoich := includeStoich }

/-- `_CRNGraphBackend(include_rule=True)` calls the exporter with these flags. -/
def backendFlags (integerIds includeStoich : Bool) : BipFlags :=
  { speciesPrefix := none, reactionPrefix := none, integerIds := integerIds, includeStoich := includeStoich }

/-- State of the exporter's closures: the graph, `species_map`, `next_id`. -/
structure ExpSt where
  g : BGraph := {}
  spMap : Dict NodeId := []
  next : Nat := 1
deriving Repr, Inhabited

def withPrefix (p : Option String) (s : String) : String :=
  match p with
  | some p => p ++ s
  | none => s

def spAttrs (f : BipFlags) (N : Net) (nid : NodeId) (s : String) : BNode :=
  { id := nid, bipartite := f.bipS, label := s, kind := .species,
    mol := if f.includeMol then N.mol.get? s else none }

def rxAttrs (f : BipFlags) (nid : NodeId) (e : Rxn) : BNode :=
  { id := nid, bipartite := f.bipR, label := e.rule, kind := .reaction,
    edgeId := if f.includeEdgeIdAttr then some e.id else none }

/-- `add_sp_node`. -/
def addSpNode (f : BipFlags) (N : Net) (st : ExpSt) (s : String) : ExpSt × NodeId :=
  match st.spMap.get? s with
  | some nid => (st, nid)
  | none =>
    let nid : NodeId := if f.integerIds then .int st.next else .str (withPrefix f.speciesPrefix s)
    let next := if f.integerIds then st.next + 1 else st.next
    let g := if st.g.hasNode nid then st.g else { st.g with nodes := st.g.nodes ++ [spAttrs f N nid s] }
    ({ g := g, spMap := st.spMap ++ [(s, nid)], next := next }, nid)

/-- `add_rxn_node`. -/
def addRxnNode (f : BipFlags) (st : ExpSt) (e : Rxn) : ExpSt × NodeId :=
  let nid : NodeId := if f.integerIds then .int st.next else .str (withPrefix f.reactionPrefix e.id)
  let next := if f.integerIds then st.next + 1 else st.next
  ({ st with g := { st.g with nodes := upsertNode st.g.nodes (rxAttrs f nid e) }, next := next }, nid)

def mkEdge (f : BipFlags) (u v : NodeId) (c : Nat) (role : Role) : BEdge :=
  { src := u, dst := v, stoich := if f.includeStoich then some c else none,
    role := if f.includeRole then some role else none }

/-- The body of the reaction loop for one reaction. -/
def addRxn (f : BipFlags) (N : Net) (st : ExpSt) (e : Rxn) : ExpSt :=
  let (st, rnode) := addRxnNode f st e
  let st := e.reactants.foldl (fun st kv =>
    let (st, u) := addSpNode f N st kv.1
    { st with g := { st.g with edges := upsertEdge st.g.edges (mkEdge f u rnode kv.2 .reactant) } }) st
  e.products.foldl (fun st kv =>
    let (st, v) := addSpNode f N st kv.1
    { st with g := { st.g with edges := upsertEdge st.g.edges (mkEdge f rnode v kv.2 .product) } }) st

/-- `species_iter`. -/
def speciesIter (f : BipFlags) (N : Net) : List String :=
  if f.includeIsolated then sortStrs N.species
  else sortStrs (N.species.filter (fun s => decide (s ∈ N.rxnSpecies)))

/-- `hypergraph_to_bipartite`. -/
def toBipartite (f : BipFlags) (N : Net) : BGraph :=
  let st := (speciesIter f N).foldl (fun st s => (addSpNode f N st s).1) {}
  ((sortRxns N.rxns).foldl (addRxn f N) st).g

/-- One side as rebuilt by the importer: walk the arcs at the reaction node, skip arcs whose
other end is not a species node, accumulate by species *label*. -/
def sideOfArcs (g : BGraph) (speciesNodes : List NodeId) (ends : List (NodeId × Option Nat)) : Side :=
  ends.foldl (fun m us =>
    if us.1 ∈ speciesNodes then
      match g.node? us.1 with
      | some n => accum m n.label (us.2.getD 1)
      | none => m
    else m) []

structure RawRxn where
  rnode : NodeId
  reactants : Side
  products : Side
  eid : Option String
  rule : String
deriving Repr, DecidableEq

/-- Data the importer collects for one reaction node. -/
def rawOfNode (g : BGraph) (speciesNodes : List NodeId) (rnode : NodeId) : RawRxn :=
  let ins := (g.edges.filter (·.dst = rnode)).map (fun e => (e.src, e.stoich))
  let outs := (g.edges.filter (·.src = rnode)).map (fun e => (e.dst, e.stoich))
  let nd := g.node? rnode
  { rnode := rnode
    reactants := sideOfArcs g speciesNodes ins
    products := sideOfArcs g speciesNodes outs
    eid := nd.bind (·.edgeId)
    rule := (nd.map (·.label)).getD "r" }

/-- `sorted(items)` of a side as the payload of the synthesised id. -/
abbrev GenId := NodeId → Side → Side → String → String

/-- The reaction loop of `bipartite_to_hypergraph`. -/
def importRxns (genId : GenId) : Net → List RawRxn → Except Err Net
  | N, [] => .ok N
  | N, r :: rest =>
    let eid := match r.eid with
      | some i => i
      | none => genId r.rnode (sortSide r.reactants) (sortSide r.products) r.rule
    if r.reactants.isEmpty && r.products.isEmpty then importRxns genId N rest
    else match N.addRxn r.reactants r.products r.rule eid with
      | .ok N' => importRxns genId N' rest
      | .error e => .error e

/-- The `species_to_mol` pass. -/
def importMol (g : BGraph) (N : Net) : Net :=
  (g.nodes.filter (·.kind = .species)).foldl (fun N n =>
    match n.mol with
    | some m => if n.label ∈ N.species then { N with mol := N.mol.set n.label m } else N
    | none => N) N

/-- `bipartite_to_hypergraph` on graphs whose nodes all carry `kind` and `label` (every graph
the exporter produces; the prefix / degree heuristics for untagged graphs are not modelled). -/
def ofBipartite (genId : GenId) (g : BGraph) : Except Err Net :=
  let speciesNodes := (g.nodes.filter (·.kind = .species)).map (·.id)
  let reactionNodes := (g.nodes.filter (·.kind = .reaction)).map (·.id)
  match importRxns genId {} ((sortBy NodeId.le reactionNodes).map (rawOfNode g speciesNodes)) with
  | .ok N => .ok (importMol g N)
  | .error e => .error e

/-! ## 2. Species graph -/

structure SNode where
  id : String
  label : Option String
  mol : Option String
deriving Repr, DecidableEq, Inhabited

structure SEdge where
  src : String
  dst : String
  via : List String
  rules : List String
  stoichR : Nat
  stoichP : Nat
  rMap : Dict Nat
  pMap : Dict Nat
deriving Repr, DecidableEq, Inhabited

structure SGraph where
  nodes : List SNode := []
  edges : List SEdge := []
deriving Repr, DecidableEq, Inhabited

/-- `G.add_edge(r, p, ...)` creates missing end nodes without attributes. -/
def touchNode (ns : List SNode) (i : String) : List SNode :=
  if ns.any (·.id = i) then ns else ns ++ [⟨i, none, none⟩]

/-- One `(r, p)` pair of one reaction: update the arc in place or append a fresh one. -/
def upsertArc (es : List SEdge) (r p eid rule : String) (rc pc : Nat) : List SEdge :=
  match es with
  | [] => [⟨r, p, [eid], [rule], rc, pc, [(eid, rc)], [(eid, pc)]⟩]
  | a :: rest =>
    if a.src = r ∧ a.dst = p then
      { a with via := setAdd a.via eid, rules := setAdd a.rules rule,
               rMap := a.rMap.set eid rc, pMap := a.pMap.set eid pc,
               stoichR := min a.stoichR rc, stoichP := min a.stoichP pc } :: rest
    else a :: upsertArc rest r p eid rule rc pc

def addArcs (g : SGraph) (e : Rxn) : SGraph :=
  e.reactants.foldl (fun g rk =>
    e.products.foldl (fun g pk =>
      { nodes := touchNode (touchNode g.nodes rk.1) pk.1,
        edges := upsertArc g.edges rk.1 pk.1 e.id e.rule rk.2 pk.2 }) g) g

/-- `hypergraph_to_species_graph`. -/
def toSpeciesGraph (includeMol : Bool) (N : Net) : SGraph :=
  let nodes := N.species.map fun s => (⟨s, some s, if includeMol then N.mol.get? s else none⟩ : SNode)
  N.rxns.foldl addArcs { nodes := nodes, edges := [] }

structure Entry where
  eid : String
  reactants : Side      -- first value per species (`vals[0]`), keys in order of first sight
  products : Side
  rules : List String
deriving Repr, DecidableEq

def setIfAbsent (m : Side) (k : String) (c : Nat) : Side := if m.contains k then m else m ++ [(k, c)]

def updEntry (es : List Entry) (eid sr sp : String) (cr cp : Nat) (rules : List String) : List Entry :=
  match es with
  | [] => [⟨eid, [(sr, cr)], [(sp, cp)], rules.foldl setAdd []⟩]
  | x :: rest =>
    if x.eid = eid then
      { x with reactants := setIfAbsent x.reactants sr cr, products := setIfAbsent x.products sp cp,
               rules := rules.foldl setAdd x.rules } :: rest
    else x :: updEntry rest eid sr sp cr cp rules

/-- `G.edges(data=True)`: grouped by source node in node order. -/
def SGraph.edgesIter (g : SGraph) : List SEdge := g.nodes.flatMap fun n => g.edges.filter (·.src = n.id)

def SGraph.labelOf (g : SGraph) (i : String) : String :=
  match g.nodes.find? (·.id = i) with
  | some n => n.label.getD i
  | none => i

abbrev GenArc := String → String → String

/-- First pass of `species_graph_to_hypergraph`: group arcs by reaction id. -/
def collectEntries (genArc : GenArc) (g : SGraph) : List Entry :=
  g.edgesIter.foldl (fun es a =>
    let sr := g.labelOf a.src
    let sp := g.labelOf a.dst
    let eids := if a.via.isEmpty then [genArc a.src a.dst] else a.via
    eids.foldl (fun es eid =>
      updEntry es eid sr sp ((a.rMap.get? eid).getD a.stoichR) ((a.pMap.get? eid).getD a.stoichP) a.rules) es) []

def materialise : Net → List Entry → Except Err Net
  | N, [] => .ok N
  | N, x :: rest =>
    match N.addRxn x.reactants x.products (x.rules.head?.getD "r") x.eid with
    | .ok N' => materialise N' rest
    | .error e => .error e

def importMolS (g : SGraph) (N : Net) : Net :=
  g.nodes.foldl (fun N n =>
    match n.mol with
    | some m =>
      let l := n.label.getD n.id
      if l ∈ N.species then { N with mol := N.mol.set l m } else N
    | none => N) N

/-- `species_graph_to_hypergraph`. The rule of a rebuilt reaction is `next(iter(rules))` of a
Python set: any element; the model takes the first and `ruleCandidates` exposes the set. -/
def ofSpeciesGraph (genArc : GenArc) (g : SGraph) : Except Err Net :=
  match materialise {} (collectEntries genArc g) with
  | .ok N => .ok (importMolS g N)
  | .error e => .error e

def ruleCandidates (genArc : GenArc) (g : SGraph) : List (String × List String) :=
  (collectEntries genArc g).map fun x => (x.eid, x.rules)

/-! ## 3. Reaction strings -/

def digitChar : Nat → Char
  | 0 => '0' | 1 => '1' | 2 => '2' | 3 => '3' | 4 => '4'
  | 5 => '5' | 6 => '6' | 7 => '7' | 8 => '8' | _ => '9'

def isDigit (c : Char) : Bool := decide ('0'.toNat ≤ c.toNat) && decide (c.toNat ≤ '9'.toNat)
def digitVal (c : Char) : Nat := c.toNat - 48

/-- Least significant digit first; `fuel > n` suffices. -/
def revDigits : Nat → Nat → List Char
  | 0, _ => []
  | fuel + 1, n => if n < 10 then [digitChar n] else digitChar (n % 10) :: revDigits fuel (n / 10)

/-- `str(n)` / `f"{n}"` for a natural number. -/
def natToDigits (n : Nat) : List Char := (revDigits (n + 1) n).reverse

/-- `int(ds)` for a non-empty string of ASCII digits. -/
def digitsToNat (ds : List Char) : Nat := ds.foldl (fun a c => 10 * a + digitVal c) 0

/-- Python `str.isspace` for one character (= `\s`, = what `split()`/`strip()` remove). -/
def isWs (c : Char) : Bool :=
  let n := c.toNat
  (decide (9 ≤ n) && decide (n ≤ 13)) || (decide (28 ≤ n) && decide (n ≤ 32)) || n == 0x85 || n == 0xa0 ||
  n == 0x1680 || (decide (0x2000 ≤ n) && decide (n ≤ 0x200a)) || n == 0x2028 || n == 0x2029 ||
  n == 0x202f || n == 0x205f || n == 0x3000

def isAsciiLetter (c : Char) : Bool :=
  (decide ('A'.toNat ≤ c.toNat) && decide (c.toNat ≤ 'Z'.toNat)) ||
  (decide ('a'.toNat ≤ c.toNat) && decide (c.toNat ≤ 'z'.toNat))

/-- Characters a label may not contain: whitespace and the four separators. -/
def okChar (c : Char) : Bool := !isWs c && c != '+' && c != '*' && c != '|' && c != '>'

/-- Well-formed label: non-empty, starts with an ASCII letter (what `^(\d+)([A-Za-z].*)$`
needs in order to split a glued coefficient), no whitespace, none of `+ * | >`.
(It follows that the label is not `∅`.) -/
def WfLabel (s : String) : Bool :=
  match s.toList with
  | [] => false
  | c :: cs => isAsciiLetter c && (c :: cs).all okChar

def intercalate (sep : List Char) : List (List Char) → List Char
  | [] => []
  | [x] => x
  | x :: y :: rest => x ++ sep ++ intercalate sep (y :: rest)

def emptySym : List Char := ['∅']
def plusSep : List Char := [' ', '+', ' ']

/-- `f"{s}" if c == 1 else f"{c}{s}"`. -/
def fmtTerm (kv : String × Nat) : List Char :=
  if kv.2 = 1 then kv.1.toList else natToDigits kv.2 ++ kv.1.toList

/-- `RXNSide.__repr__` (= the local `fmt` of `hypergraph_to_rxn_strings`). -/
def fmtSide (m : Side) : List Char :=
  if m.isEmpty then emptySym else intercalate plusSep ((sortSide m).map fmtTerm)

/-- `str.strip()`. -/
def strip (cs : List Char) : List Char := ((cs.dropWhile isWs).reverse.dropWhile isWs).reverse

/-- `str.split(c)` for a one-character separator: always at least one piece. -/
def splitOn (c : Char) : List Char → List (List Char)
  | [] => [[]]
  | x :: xs =>
    if x = c then [] :: splitOn c xs
    else match splitOn c xs with
      | [] => [[x]]
      | p :: ps => (x :: p) :: ps

def splitWsAux : List Char → List Char → List (List Char)
  | [], cur => if cur.isEmpty then [] else [cur]
  | c :: cs, cur =>
    if isWs c then (if cur.isEmpty then splitWsAux cs [] else cur :: splitWsAux cs [])
    else splitWsAux cs (cur ++ [c])

/-- `str.split()`. -/
def splitWs (cs : List Char) : List (List Char) := splitWsAux cs []

/-- Digits with single underscores between them (Python integer literal syntax accepted by
`int`). Returns the value. -/
def pyDigits : List Char → Option Nat
  | [] => none
  | c :: cs =>
    if !isDigit c then none else
    let rec go : List Char → Nat → Option Nat
      | [], a => some a
      | d :: ds, a =>
        if isDigit d then go ds (10 * a + digitVal d)
        else if d = '_' then
          match ds with
          | e :: es => if isDigit e then go es (10 * a + digitVal e) else none
          | [] => none
        else none
    go cs (digitVal c)

/-- `int(tok)` for a whitespace-free ASCII token: optional sign, digits; `none` = `ValueError`. -/
def pyInt : List Char → Option Int
  | '+' :: cs => (pyDigits cs).map Int.ofNat
  | '-' :: cs => (pyDigits cs).map (fun n => - Int.ofNat n)
  | cs => (pyDigits cs).map Int.ofNat

/-- One `+`-separated part of `RXNSide.from_str` (already stripped, non-empty). -/
def parsePart (out : Side) (part : List Char) : Except Err Side :=
  let part := strip (part.map fun c => if c = '*' then ' ' else c)
  match splitWs part with
  | [] => .error .indexError                       -- `int(toks[0])` on an empty list
  | [token] =>
    -- `re.match(r"^(\d+)([A-Za-z].*)$", token)`; a token has no whitespace, hence no newline
    let ds := token.takeWhile isDigit
    let rest := token.dropWhile isDigit
    match ds, rest with
    | _ :: _, c :: _ =>
      if isAsciiLetter c then
        let n := digitsToNat ds
        .ok (if n > 0 then accum out (String.ofList rest) n else out)
      else .ok (accum out (String.ofList token) 1)
    | _, _ => .ok (accum out (String.ofList token) 1)
  | t0 :: t1 :: more =>
    match pyInt t0 with
    | some c =>
      if c > 0 then .ok (accum out (String.ofList (intercalate [' '] (t1 :: more))) c.toNat) else .ok out
    | none => .ok (accum out (String.ofList (intercalate [' '] (t0 :: t1 :: more))) 1)

def parseParts : Side → List (List Char) → Except Err Side
  | out, [] => .ok out
  | out, p :: ps =>
    match parsePart out p with
    | .ok o => parseParts o ps
    | .error e => .error e

/-- `RXNSide.from_str`. (The final `cls(out)` re-normalisation is the identity: entries are
only ever created with a positive count.) -/
def parseSide (s : List Char) : Except Err Side :=
  let s := strip s
  if s = [] ∨ s = emptySym then .ok []
  else parseParts [] (((splitOn '+' s).map strip).filter (fun p => !p.isEmpty))

structure StrFlags where
  includeRule : Bool := true
  includeId : Bool := false
  sort : Bool := true
deriving Repr, DecidableEq, Inhabited

def arrow : List Char := [' ', '>', '>', ' ']

/-- One line of `hypergraph_to_rxn_strings`. -/
def fmtLine (f : StrFlags) (e : Rxn) : List Char :=
  let core := fmtSide e.reactants ++ arrow ++ fmtSide e.products
  let parts : List (List Char) :=
    (if f.includeRule && e.rule != "" then ["rule=".toList ++ e.rule.toList] else []) ++
    (if f.includeId then ["id=".toList ++ e.id.toList] else [])
  if parts.isEmpty then core else core ++ [' ', '|', ' '] ++ intercalate [' '] parts

def fmtLines (f : StrFlags) (N : Net) : List (List Char) :=
  (if f.sort then sortRxns N.rxns else N.rxns).map (fmtLine f)

/-- `rule\s*=\s*([^\s]+)` anchored at the head of `cs`. -/
def matchRuleAt (cs : List Char) : Option (List Char) :=
  match cs with
  | 'r' :: 'u' :: 'l' :: 'e' :: r0 =>
    match r0.dropWhile isWs with
    | '=' :: r1 =>
      let g := (r1.dropWhile isWs).takeWhile (fun c => !isWs c)
      if g.isEmpty then none else some g
    | _ => none
  | _ => none

/-- `re.search(r"rule\s*=\s*([^\s]+)", meta)`. -/
def searchRule : List Char → Option (List Char)
  | [] => none
  | c :: cs =>
    match matchRuleAt (c :: cs) with
    | some g => some g
    | none => searchRule cs

/-- `s.split(c, 1)` when `c` occurs. -/
def splitFirst (c : Char) : List Char → Option (List Char × List Char)
  | [] => none
  | x :: xs =>
    if x = c then some ([], xs)
    else match splitFirst c xs with
      | some (a, b) => some (x :: a, b)
      | none => none

/-- `core.split(">>", 1)` when `">>"` occurs. -/
def splitArrow : List Char → Option (List Char × List Char)
  | [] => none
  | [_] => none
  | x :: y :: rest =>
    if x = '>' ∧ y = '>' then some ([], rest)
    else match splitArrow (y :: rest) with
      | some (a, b) => some (x :: a, b)
      | none => none

structure ParsedLine where
  rule : Option String
  reactants : Side
  products : Side
deriving Repr, DecidableEq

/-- `add_rxn_from_str` up to (not including) the final `add_rxn`. -/
def parseLine (explicitRule : Option String) (parseSuffix : Bool) (line : List Char) :
    Except Err ParsedLine :=
  let (core, rule) :=
    match (if parseSuffix then splitFirst '|' line else none) with
    | some (core, m) =>
      (core, match searchRule (strip m), explicitRule with
             | some g, none => some (String.ofList g)
             | _, r => r)
    | none => (line, explicitRule)
  match splitArrow (strip core) with
  | none => .error .valueError
  | some (l, r) =>
    match parseSide l with
    | .error e => .error e
    | .ok rs =>
      match parseSide r with
      | .error e => .error e
      | .ok ps => .ok ⟨rule, rs, ps⟩

/-- `f"{rule}_{cnt}"`. -/
def mkId (rule : String) (cnt : Nat) : String := rule ++ "_" ++ String.ofList (natToDigits cnt)

def firstFreeAux : Nat → List String → String → Nat → Nat
  | 0, _, _, cnt => cnt
  | fuel + 1, ids, rule, cnt =>
    if mkId rule cnt ∈ ids then firstFreeAux fuel (ids.erase (mkId rule cnt)) rule (cnt + 1) else cnt

/-- Builder state of `parse_rxns`: the network and `_rule_counters`. -/
structure PState where
  net : Net := {}
  counters : Dict Nat := []
deriving Repr, Inhabited

/-- `add_rxn(reactants, products, rule=rule_local)` with a generated id (`rule or "r"`,
`_next_edge_id_for_rule`, empty check). -/
def PState.addGen (st : PState) (pl : ParsedLine) : Except Err PState :=
  let rule := normRule (pl.rule.getD "")
  let cnt := firstFreeAux (st.net.ids.length + 1) st.net.ids rule (st.counters.getD rule 0 + 1)
  let eid := mkId rule cnt
  if pl.reactants.isEmpty && pl.products.isEmpty then .error .valueError
  else
    let e : Rxn := ⟨eid, rule, pl.reactants, pl.products⟩
    .ok { net := { st.net with rxns := st.net.rxns ++ [e], species := e.speciesOf.foldl setAdd st.net.species },
          counters := st.counters.set rule cnt }

/-- `parse_rxns(lines, default_rule, parse_rule_from_suffix)` for an iterable of plain strings
(no per-line explicit rules): with suffix parsing the rule comes from the suffix or defaults to
`"r"`; without, `default_rule` is passed explicitly and the suffix stays part of the text. -/
def parseLinesFrom (parseSuffix : Bool) (defaultRule : String) : PState → List (List Char) → Except Err PState
  | st, [] => .ok st
  | st, l :: ls =>
    match parseLine (if parseSuffix then none else some defaultRule) parseSuffix l with
    | .error e => .error e
    | .ok pl =>
      match st.addGen pl with
      | .error e => .error e
      | .ok st' => parseLinesFrom parseSuffix defaultRule st' ls

/-- `rxns_to_hypergraph(lines)`. -/
def parseLines (lines : List (List Char)) : Except Err Net :=
  match parseLinesFrom true "r" {} lines with
  | .ok st => .ok st.net
  | .error e => .error e

/-! ## Well-formedness of networks (the hypotheses of the round-trip theorems) -/

/-- A side as a Python dict with positive counts. -/
def WfSide (m : Side) : Prop := m.keys.Nodup ∧ ∀ kv ∈ m, 0 < kv.2

/-- What every `CRNHyperGraph` satisfies (C15 invariant): ids unique, sides are dicts with
positive counts, no reaction is empty on both sides, rules non-empty, every species of a
reaction is in the species set, the species set has no duplicates. -/
structure WfNet (N : Net) : Prop where
  idsNodup : N.ids.Nodup
  sides : ∀ e ∈ N.rxns, WfSide e.reactants ∧ WfSide e.products
  nonEmpty : ∀ e ∈ N.rxns, e.reactants ≠ [] ∨ e.products ≠ []
  rules : ∀ e ∈ N.rxns, e.rule ≠ ""
  speciesNodup : N.species.Nodup
  speciesSup : ∀ s ∈ N.rxnSpecies, s ∈ N.species

/-- All labels of a side are well formed. -/
def WfLabels (m : Side) : Prop := ∀ kv ∈ m, WfLabel kv.1 = true

/-- Rules as the property reads them: non-empty, no whitespace. -/
def WfRule (r : String) : Prop := r ≠ "" ∧ ∀ c ∈ r.toList, isWs c = false

/-- Hypotheses of the string round trip. -/
structure WfStrNet (N : Net) : Prop where
  sides : ∀ e ∈ N.rxns, WfSide e.reactants ∧ WfSide e.products
  nonEmpty : ∀ e ∈ N.rxns, e.reactants ≠ [] ∨ e.products ≠ []
  labels : ∀ e ∈ N.rxns, WfLabels e.reactants ∧ WfLabels e.products
  rules : ∀ e ∈ N.rxns, WfRule e.rule

/-- What a reaction string carries: rule and the two sides (no id). -/
def Rxn.content (e : Rxn) : String × Side × Side := (e.rule, e.reactants, e.products)
/-- The same with both sides in the printed (sorted) order. -/
def Rxn.sortedContent (e : Rxn) : String × Side × Side := (e.rule, sortSide e.reactants, sortSide e.products)

/-- In the string-id bipartite view no species node id equals a reaction node id (with the
default prefixes `S:` / `R:` this always holds; without prefixes it fails exactly when a species
is named like a reaction id, DESIGN §6 F19). -/
def NoIdClash (f : BipFlags) (N : Net) : Prop :=
  f.integerIds = true ∨
    ∀ s ∈ N.species, ∀ e ∈ N.rxns, withPrefix f.speciesPrefix s ≠ withPrefix f.reactionPrefix e.id

/-- The export keeps the coefficients: `include_stoich`, or there is nothing to keep. -/
def StoichKept (f : BipFlags) (N : Net) : Prop :=
  f.includeStoich = true ∨ ∀ e ∈ N.rxns, (∀ kv ∈ e.reactants, kv.2 = 1) ∧ (∀ kv ∈ e.products, kv.2 = 1)

/-- Every reaction has both reactants and products. -/
def TwoSided (N : Net) : Prop := ∀ e ∈ N.rxns, e.reactants ≠ [] ∧ e.products ≠ []

end SynKit.Views

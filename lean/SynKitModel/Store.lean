import SynKitModel.Basic
import SynKitModel.Views
/-!
# Model of `synkit/CRN/Hypergraph/hypergraph.py` (C15)

`CRNHyperGraph` keeps a dict of reactions and four hand-maintained secondary
structures (species set, in/out indices, molecule labels, per-rule counters).
The model keeps the same fields and updates them the way the code does; the
`kept` field is a ghost (history) variable recording the species the caller
chose to keep with `remove_species(..., prune_orphans=False)`.

The string entry points (`add_rxn_from_str`, `parse_rxns`) are built from the text layer of
`SynKitModel/Views.lean` (`parseLine` = everything of `add_rxn_from_str` before the final
`add_rxn`, `parseSide` = `RXNSide.from_str`).
-/
namespace SynKit.Store

abbrev Side := Dict Nat

structure Edge where
  id : String
  rule : String
  reactants : Side
  products : Side
deriving Repr, DecidableEq, Inhabited

def Edge.speciesOf (e : Edge) : List String := e.reactants.keys ++ e.products.keys
def Edge.isEmpty (e : Edge) : Bool := e.reactants.isEmpty && e.products.isEmpty

structure Store where
  species : List String := []
  edges : List Edge := []
  counters : Dict Nat := []
  inIdx : Dict (List String) := []
  outIdx : Dict (List String) := []
  mol : Dict String := []
  kept : List String := []
deriving Repr, Inhabited

inductive Err | keyError | valueError | indexError | typeError
deriving Repr, DecidableEq

/-- `RXNSide._normalize_any` on a mapping: drop non-positive counts, accumulate. -/
def normSide (raw : List (String × Int)) : Side :=
  raw.foldl (fun out kv => if kv.2 > 0 then out.set kv.1 (out.getD kv.1 0 + kv.2.toNat) else out) []

/-- One element of a non-mapping iterable handed to `RXNSide._normalize_any` (`RXNSide.from_any`,
`RXNSide(data)`, and through them `add_rxn` / `HyperEdge` / `merge`): a 2-tuple `(species, count)`
or anything else, which is taken as a species label. -/
inductive SideItem
  | pair (s : String) (c : Int)
  | label (s : String)
deriving Repr, DecidableEq, Inhabited

/-- The `for item in obj:` branch of `RXNSide._normalize_any` as raw pairs for `normSide`:
a pair contributes its count (dropped by `normSide` when not positive), a label contributes
`+1` unless it is the empty string (`if s:`), which is skipped. -/
def rawOfItems (items : List SideItem) : List (String × Int) :=
  items.filterMap fun it =>
    match it with
    | .pair s c => some (s, c)
    | .label s => if s = "" then none else some (s, 1)

/-- `f"{rule}_{cnt}"`. -/
def mkId (rule : String) (cnt : Nat) : String := rule ++ "_" ++ toString cnt

def Store.ids (s : Store) : List String := s.edges.map (·.id)

/-- The `while f"{rule}_{cnt}" in self.edges: cnt += 1` loop of `_next_edge_id_for_rule`.
Structural recursion on a fuel argument; an id that was seen is erased so that the list
shrinks, and `firstFree` supplies more fuel than the list is long. -/
def firstFreeAux : Nat → List String → String → Nat → Nat
  | 0, _, _, cnt => cnt
  | fuel + 1, ids, rule, cnt =>
    if mkId rule cnt ∈ ids then firstFreeAux fuel (ids.erase (mkId rule cnt)) rule (cnt + 1) else cnt

def firstFree (ids : List String) (rule : String) (cnt : Nat) : Nat :=
  firstFreeAux (ids.length + 1) ids rule cnt

/-- `_next_edge_id_for_rule`. -/
def Store.nextId (s : Store) (rule : String) : Store × String :=
  let cnt := firstFree s.ids rule (s.counters.getD rule 0 + 1)
  ({ s with counters := s.counters.set rule cnt }, mkId rule cnt)

def idxAdd (idx : Dict (List String)) (sps : List String) (id : String) : Dict (List String) :=
  sps.foldl (fun d sp => d.set sp (setAdd (d.getD sp []) id)) idx

def idxDiscard (idx : Dict (List String)) (sps : List String) (id : String) : Dict (List String) :=
  sps.foldl (fun d sp => d.set sp (setDiscard (d.getD sp []) id)) idx

/-- `_ = self.species_to_in_edges[s]` on a `defaultdict(set)`. -/
def idxTouch (idx : Dict (List String)) (sps : List String) : Dict (List String) :=
  sps.foldl (fun d sp => if d.contains sp then d else d.set sp []) idx

/-- Insert an edge whose id is already decided (tail of `add_rxn`). -/
def Store.insertEdge (s : Store) (e : Edge) : Store :=
  { s with
    edges := s.edges ++ [e]
    species := e.speciesOf.foldl setAdd s.species
    inIdx := idxAdd (idxTouch s.inIdx e.speciesOf) e.products.keys e.id
    outIdx := idxAdd (idxTouch s.outIdx e.speciesOf) e.reactants.keys e.id }

def normRule (rule : Option String) : String :=
  match rule with
  | none => "r"
  | some r => if r = "" then "r" else r

/-- `add_rxn` on already normalised sides. Order of effects as in the code: the
counter is advanced before the empty-reaction check. -/
def Store.addNorm (s : Store) (r p : Side) (rule : Option String) (eid : Option String) :
    Store × Except Err String :=
  let rule := normRule rule
  match eid with
  | some i =>
    if i ∈ s.ids then (s, .error .keyError)
    else if r.isEmpty && p.isEmpty then (s, .error .valueError)
    else (s.insertEdge ⟨i, rule, r, p⟩, .ok i)
  | none =>
    let (s1, i) := s.nextId rule
    if r.isEmpty && p.isEmpty then (s1, .error .valueError)
    else (s1.insertEdge ⟨i, rule, r, p⟩, .ok i)

def Store.add (s : Store) (r p : List (String × Int)) (rule : Option String) (eid : Option String) :
    Store × Except Err String :=
  s.addNorm (normSide r) (normSide p) rule eid

/-- The orphan test-and-drop that follows every index update in `remove_rxn` /
`remove_species`. -/
def Store.dropIfOrphan (s : Store) (sp : String) : Store :=
  if (s.inIdx.getD sp []).isEmpty && (s.outIdx.getD sp []).isEmpty then
    { s with
      species := setDiscard s.species sp
      inIdx := s.inIdx.erase sp
      outIdx := s.outIdx.erase sp
      mol := s.mol.erase sp
      kept := setDiscard s.kept sp }
  else s

def Store.findEdge (s : Store) (id : String) : Option Edge := s.edges.find? (·.id = id)

/-- `remove_rxn`. -/
def Store.remove (s : Store) (id : String) : Store × Except Err Unit :=
  match s.findEdge id with
  | none => (s, .error .keyError)
  | some e =>
    let s1 : Store := { s with
      edges := s.edges.filter (·.id ≠ id)
      outIdx := idxDiscard s.outIdx e.reactants.keys id
      inIdx := idxDiscard s.inIdx e.products.keys id }
    (e.speciesOf.foldl Store.dropIfOrphan s1, .ok ())

/-- Strip a species from both sides of an edge (`e.products.pop`, `e.reactants.pop`). -/
def Edge.strip (e : Edge) (sp : String) : Edge :=
  { e with reactants := e.reactants.erase sp, products := e.products.erase sp }

/-- `remove_species`. The code walks the two index entries of `sp`; the model strips
`sp` from exactly the edges listed there. -/
def Store.removeSpecies (s : Store) (sp : String) (prune : Bool) : Store × Except Err Unit :=
  if sp ∉ s.species then (s, .error .keyError) else
  let inIds := s.inIdx.getD sp []
  let outIds := s.outIdx.getD sp []
  let edges1 := s.edges.map fun e =>
    let e1 := if e.id ∈ inIds then { e with products := e.products.erase sp } else e
    if e.id ∈ outIds then { e1 with reactants := e1.reactants.erase sp } else e1
  let edges2 := edges1.filter fun e => !((e.id ∈ inIds || e.id ∈ outIds) && e.isEmpty)
  let s1 : Store := { s with
    edges := edges2
    inIdx := s.inIdx.set sp []
    outIdx := s.outIdx.set sp [] }
  if prune then (s1.dropIfOrphan sp, .ok ())
  else ({ s1 with kept := setAdd s1.kept sp }, .ok ())

/-- `merge(other, prefix_edges)`; stops at the first error like the code does. -/
def Store.merge (s : Store) (other : List Edge) (pfx : Bool) : Store × Except Err Unit :=
  match other with
  | [] => (s, .ok ())
  | e :: rest =>
    let (s1, newId) := if pfx || e.id ∈ s.ids then s.nextId e.rule else (s, e.id)
    match s1.addNorm e.reactants e.products (some e.rule) (some newId) with
    | (s2, .ok _) => s2.merge rest pfx
    | (s2, .error err) => (s2, .error err)

/-- An edge of a "hypergraph-like object" handed to `merge` (anything with `edge_list()`):
`id` is `getattr(e, "id", None)`, `rule` is `getattr(e, "rule", "r")`, the sides are whatever
`RXNSide.from_any` accepts (an `RXNSide` is copied, which is the same value). -/
structure FEdge where
  id : Option String
  rule : String
  reactants : List SideItem
  products : List SideItem
deriving Repr, Inhabited

def FEdge.toEdge (e : FEdge) : Edge :=
  ⟨e.id.getD "", e.rule, normSide (rawOfItems e.reactants), normSide (rawOfItems e.products)⟩

/-- `merge(other, prefix_edges)` for a foreign `other`: per edge the loop body of `merge`, where
`new_id is None` forces a generated id exactly like `prefix_edges` does. -/
def Store.mergeForeign (s : Store) (other : List FEdge) (pfx : Bool) : Store × Except Err Unit :=
  match other with
  | [] => (s, .ok ())
  | e :: rest =>
    match s.merge [e.toEdge] (pfx || e.id.isNone) with
    | (s1, .ok _) => s1.mergeForeign rest pfx
    | (s1, .error err) => (s1, .error err)

/-- `assign_mol`. -/
def Store.assignMol (s : Store) (sp : String) (m : String) : Store × Except Err Unit :=
  if sp ∈ s.species then ({ s with mol := s.mol.set sp m }, .ok ()) else (s, .error .keyError)

/-- `set_mol_map(mapping, strict=..., clear_existing=...)`. -/
def Store.setMolMap (s : Store) (mapping : List (String × String)) (strict clear : Bool) :
    Store × Except Err Unit :=
  if strict && mapping.any (fun kv => kv.1 ∉ s.species) then (s, .error .keyError) else
  let base : Dict String := if clear then [] else s.mol
  ({ s with mol := mapping.foldl (fun m kv => if kv.1 ∈ s.species then m.set kv.1 kv.2 else m) base },
   .ok ())

/-! ## String entry points (`add_rxn_from_str`, `parse_rxns`) -/

/-- Exceptions of the text layer as exceptions of the store: `ValueError` (no `>>`),
`IndexError` (`int(toks[0])` on a part that consists of `*` only). The text layer never raises
`KeyError`. -/
def errOfViews : Views.Err → Err
  | .keyError => .keyError
  | .valueError => .valueError
  | .indexError => .indexError

/-- `add_rxn_from_str(reaction, rule, parse_rule_from_suffix=...)`: split off the `| rule=R`
suffix, require `>>`, parse both sides (`RXNSide.from_str`; nothing has been touched when any of
this raises), then `add_rxn(reactants, products, rule=rule_local)` with a generated id — the
sides are `RXNSide` objects, so `add_rxn` uses them as they are. -/
def Store.addFromStr (s : Store) (reaction : List Char) (rule : Option String) (parseSuffix : Bool) :
    Store × Except Err String :=
  match Views.parseLine rule parseSuffix reaction with
  | .error e => (s, .error (errOfViews e))
  | .ok pl => s.addNorm pl.reactants pl.products pl.rule none

/-- `re.match`-style test of `\|\s*rule\s*=\s*[^\s]+` at the head of the text. -/
def matchBarRuleAt : List Char → Bool
  | '|' :: rest => (Views.matchRuleAt (rest.dropWhile Views.isWs)).isSome
  | _ => false

/-- `re.search(r"\|\s*rule\s*=\s*[^\s]+", line)` as a truth value. -/
def searchBarRule : List Char → Bool
  | [] => false
  | c :: cs => matchBarRuleAt (c :: cs) || searchBarRule cs

/-- The case split in the loop body of `parse_rxns`: which `rule=` and which
`parse_rule_from_suffix=` the line is handed to `add_rxn_from_str` with.
* explicit per-line rule, `prefer_suffix and parse_rule_from_suffix`: if the line has a
  `| rule=…` suffix the suffix decides (`rule=None`, parse), otherwise the explicit rule, no parsing;
* explicit per-line rule otherwise: the explicit rule, **no suffix parsing** (a suffix stays in
  the text of the product side);
* no explicit rule, `parse_rule_from_suffix`: `rule=None`, parse (`default_rule` is not used:
  without a suffix the rule becomes `"r"`);
* no explicit rule, no parsing: `default_rule`, no parsing. -/
def lineArgs (defaultRule : String) (parseSuffix preferSuffix : Bool) (line : List Char)
    (explicit : Option String) : Option String × Bool :=
  match explicit with
  | some r =>
    if preferSuffix && parseSuffix then
      if searchBarRule line then (none, true) else (some r, false)
    else (some r, false)
  | none => if parseSuffix then (none, true) else (some defaultRule, false)

/-- `parse_rxns` on the normalised iterable of `(line, explicit_rule)` pairs (a mapping's
`items()`, an iterable of `(line, rule)` tuples, or plain strings = `(line, None)`). Lines are
added one after the other; the first exception propagates and everything added before it (and
the counter the failing `add_rxn` may already have advanced) stays. -/
def Store.parseRxns (s : Store) (items : List (List Char × Option String)) (defaultRule : String)
    (parseSuffix preferSuffix : Bool) : Store × Except Err Unit :=
  match items with
  | [] => (s, .ok ())
  | (line, explicit) :: rest =>
    let args := lineArgs defaultRule parseSuffix preferSuffix line explicit
    match s.addFromStr line args.1 args.2 with
    | (s1, .ok _) => s1.parseRxns rest defaultRule parseSuffix preferSuffix
    | (s1, .error e) => (s1, .error e)

/-- `parse_rxns(lines, rules=rules, ...)` for a non-mapping `lines`: the length check
(`ValueError`, before anything is added), then the zipped pairs. -/
def Store.parseRxnsRules (s : Store) (lines : List (List Char)) (rules : List (Option String))
    (defaultRule : String) (parseSuffix preferSuffix : Bool) : Store × Except Err Unit :=
  if lines.length ≠ rules.length then (s, .error .valueError)
  else s.parseRxns (lines.zip rules) defaultRule parseSuffix preferSuffix

/-- Coefficient of a species on a side. -/
def coeff (side : Side) (sp : String) : Int := (side.getD sp 0 : Nat)

/-- `incidence_matrix(sparse=True)` mapping, as coded: a running dict keyed by
(species, edge id), reactants subtracted then products added. -/
def incidenceEdge (e : Edge) : Dict Int :=
  let m := e.reactants.foldl (fun (m : Dict Int) kv => m.set kv.1 (m.getD kv.1 0 - (kv.2 : Int))) []
  e.products.foldl (fun (m : Dict Int) kv => m.set kv.1 (m.getD kv.1 0 + (kv.2 : Int))) m

/-! ## Worlds: several stores, so that `copy` and `merge` are observable -/

inductive Op
  | add (k : Nat) (r p : List (String × Int)) (rule : Option String) (eid : Option String)
  | remove (k : Nat) (id : String)
  | removeSpecies (k : Nat) (sp : String) (prune : Bool)
  | merge (k j : Nat) (pfx : Bool)
  | mergeEdges (k : Nat) (other : Option (List FEdge)) (pfx : Bool)
  | copy (k j : Nat)
  | assignMol (k : Nat) (sp m : String)
  | setMolMap (k : Nat) (mapping : List (String × String)) (strict clear : Bool)
  | addFromStr (k : Nat) (reaction : List Char) (rule : Option String) (parseSuffix : Bool)
  | parseRxns (k : Nat) (items : List (List Char × Option String)) (defaultRule : String)
      (parseSuffix preferSuffix : Bool)
  | parseRxnsRules (k : Nat) (lines : List (List Char)) (rules : List (Option String))
      (defaultRule : String) (parseSuffix preferSuffix : Bool)
deriving Repr

inductive Out | ok | okId (id : String) | err (e : Err) | badOp
deriving Repr, DecidableEq

abbrev World := List Store

def World.put (w : World) (k : Nat) (s : Store) : World := w.set k s

def outOf : Except Err Unit → Out
  | .ok _ => .ok
  | .error e => .err e

def step (w : World) (op : Op) : World × Out :=
  match op with
  | .add k r p rule eid =>
    match w[k]? with
    | none => (w, .badOp)
    | some s => match s.add r p rule eid with
      | (s', .ok i) => (w.put k s', .okId i)
      | (s', .error e) => (w.put k s', .err e)
  | .remove k id =>
    match w[k]? with
    | none => (w, .badOp)
    | some s => let (s', r) := s.remove id; (w.put k s', outOf r)
  | .removeSpecies k sp prune =>
    match w[k]? with
    | none => (w, .badOp)
    | some s => let (s', r) := s.removeSpecies sp prune; (w.put k s', outOf r)
  | .merge k j pfx =>
    match w[k]?, w[j]? with
    | some s, some o => let (s', r) := s.merge o.edges pfx; (w.put k s', outOf r)
    | _, _ => (w, .badOp)
  | .mergeEdges k other pfx =>
    match w[k]? with
    | none => (w, .badOp)
    | some s =>
      match other with
      | none => (w, .err .typeError)        -- `not hasattr(other, "edge_list")`
      | some es => let (s', r) := s.mergeForeign es pfx; (w.put k s', outOf r)
  | .copy k j =>
    match w[k]? with
    | none => (w, .badOp)
    | some s => if j < w.length then (w.put j s, .ok) else (w, .badOp)
  | .assignMol k sp m =>
    match w[k]? with
    | none => (w, .badOp)
    | some s => let (s', r) := s.assignMol sp m; (w.put k s', outOf r)
  | .setMolMap k mapping strict clear =>
    match w[k]? with
    | none => (w, .badOp)
    | some s => let (s', r) := s.setMolMap mapping strict clear; (w.put k s', outOf r)
  | .addFromStr k reaction rule parseSuffix =>
    match w[k]? with
    | none => (w, .badOp)
    | some s => match s.addFromStr reaction rule parseSuffix with
      | (s', .ok i) => (w.put k s', .okId i)
      | (s', .error e) => (w.put k s', .err e)
  | .parseRxns k items defaultRule parseSuffix preferSuffix =>
    match w[k]? with
    | none => (w, .badOp)
    | some s =>
      let (s', r) := s.parseRxns items defaultRule parseSuffix preferSuffix; (w.put k s', outOf r)
  | .parseRxnsRules k lines rules defaultRule parseSuffix preferSuffix =>
    match w[k]? with
    | none => (w, .badOp)
    | some s =>
      let (s', r) := s.parseRxnsRules lines rules defaultRule parseSuffix preferSuffix
      (w.put k s', outOf r)

def run (w : World) (ops : List Op) : World := ops.foldl (fun w op => (step w op).1) w

def initWorld (n : Nat) : World := List.replicate n {}

end SynKit.Store

import SynKitModel.Graph
import SynKitModel.Repr
/-!
# C10 — the GML rule writer and reader at token level

Mirrors `synkit/IO/nx_to_gml.py` (`NXToGML`), `synkit/IO/gml_to_nx.py` (`GMLToNX`) and the entry
points `its_to_gml`, `gml_to_its`, `smart_to_gml` of `synkit/IO/chem_converter.py`, together with
the three ITS helpers they call (`its_decompose`, `get_rc`, `ITSConstruction.ITSGraph`) as far as
these entry points use them (default arguments: `explicit_hydrogen=False`, `disconnected=False`,
`keep_mtg=False`, `balance_its=False`, `store=False`, `ignore_aromaticity=False`).

A GML rule is modelled as three lists of *items* (`node [ id n label "…" ]`,
`edge [ source u target v label "…" ]`); labels are `List Char` because the label syntax
(`_charge_to_string` / `_extract_element_and_charge`) is the point.  The text layer (rendering
items to the exact text and tokenising text with `str.split`) is executable and checked by the
correspondence only.

`itsToGml` follows the F8 repair (draft fix 0011): with `core=True` the centre is extracted first
and *everything* (left, right and context) is written from it.
-/
namespace SynKit.Gml
open SynKit.Repr (updAttrs)

/-! ## Labels -/

def digitChar : Nat → Char
  | 0 => '0' | 1 => '1' | 2 => '2' | 3 => '3' | 4 => '4'
  | 5 => '5' | 6 => '6' | 7 => '7' | 8 => '8' | _ => '9'

/-- decimal digits of `n`, most significant first (`fuel > n` suffices). -/
def decAux : Nat → Nat → List Char → List Char
  | 0, _, acc => acc
  | fuel + 1, n, acc =>
    if n / 10 = 0 then digitChar (n % 10) :: acc else decAux fuel (n / 10) (digitChar (n % 10) :: acc)

/-- Python `f"{n}"` for a natural number. -/
def toDec (n : Nat) : List Char := decAux (n + 1) n []

/-- `NXToGML._charge_to_string`. -/
def chargeStr (c : Int) : List Char :=
  if c > 0 then (if c = 1 then ['+'] else toDec c.toNat ++ ['+'])
  else if c < 0 then (if c = -1 then ['-'] else toDec (-c).toNat ++ ['-'])
  else []

/-- the label the writer emits: `f"{element}{charge_str}"`. -/
def render (e : List Char) (c : Int) : List Char := e ++ chargeStr c

/-- `[A-Za-z*]`. -/
def isElemChar (ch : Char) : Bool := ch.isAlpha || ch = '*'

def digitVal (ch : Char) : Nat := ch.toNat - 48

/-- Python `int(s)` on a string of ASCII digits. -/
def fromDec (ds : List Char) : Nat := ds.foldl (fun acc d => acc * 10 + digitVal d) 0

/-- `GMLToNX._extract_element_and_charge`: `re.match(r"([A-Za-z*]+)(\d+)?([+-])?$", label)`.
The three character classes are disjoint, so the greedy match is the only candidate: the longest
prefix of element characters (non-empty), then the longest run of digits, then at most one sign,
then the end; no match ↦ `("X", 0)`.  A number without a sign is ignored, as coded. -/
def parseLabel (l : List Char) : List Char × Int :=
  let el := l.takeWhile isElemChar
  let r1 := l.dropWhile isElemChar
  let ds := r1.takeWhile Char.isDigit
  let r2 := r1.dropWhile Char.isDigit
  let mag : Int := if ds = [] then 1 else (fromDec ds : Nat)
  if el = [] then (['X'], 0) else
  match r2 with
  | [] => (el, 0)
  | [s] => if s = '+' then (el, mag) else if s = '-' then (el, -mag) else (['X'], 0)
  | _ => (['X'], 0)

/-- the element strings for which the label syntax is unambiguous. -/
def alpha (e : List Char) : Prop := e ≠ [] ∧ ∀ ch ∈ e, isElemChar ch = true
instance (e : List Char) : Decidable (alpha e) := by unfold alpha; infer_instance

/-- `order_to_label.get(order, "-")`. -/
def orderLabel (v : Val) : List Char :=
  if v = .num 2 then ['-'] else if v = .num 3 then [':'] else if v = .num 4 then ['=']
  else if v = .num 6 then ['#'] else ['-']

/-- `label_to_order.get(label, 0)`. -/
def labelOrder (l : List Char) : Val :=
  if l = ['-'] then .num 2 else if l = [':'] then .num 3 else if l = ['='] then .num 4
  else if l = ['#'] then .num 6 else .num 0

/-! ## Items and rules -/

inductive Item
  | node (id : Nat) (label : List Char)
  | edge (src tgt : Nat) (label : List Char)
deriving Repr, DecidableEq

structure Rule where
  left : List Item
  context : List Item
  right : List Item
deriving Repr, DecidableEq

/-! ## NetworkX graph primitives -/

/-- `G.add_node(v, **a)`: update the attributes of an existing node, append otherwise. -/
def addNode (g : LGraph) (v : Nat) (a : Attrs) : LGraph :=
  if g.hasNode v then updAttrs g v (fun old => a.foldl (fun d kv => Dict.set d kv.1 kv.2) old)
  else { g with nodes := g.nodes ++ [(v, a)] }

/-- the node is created with no attributes when an edge mentions it first. -/
def touchNode (g : LGraph) (v : Nat) : LGraph :=
  if g.hasNode v then g else { g with nodes := g.nodes ++ [(v, [])] }

def sameEdge (e : Nat × Nat × Attrs) (u v : Nat) : Bool :=
  (e.1 = u && e.2.1 = v) || (e.1 = v && e.2.1 = u)

/-- `G.add_edge(u, v, **a)`. -/
def addEdge (g : LGraph) (u v : Nat) (a : Attrs) : LGraph :=
  let g2 := touchNode (touchNode g u) v
  if g2.hasEdge u v then
    { g2 with edges := g2.edges.map (fun e =>
        if sameEdge e u v then (e.1, e.2.1, a.foldl (fun d kv => Dict.set d kv.1 kv.2) e.2.2) else e) }
  else { g2 with edges := g2.edges ++ [(u, v, a)] }

/-! ## ITS helpers as the GML entry points use them -/

def tupGet (v : Val) (i : Nat) : Val :=
  match v with
  | .tup xs => xs.getD i Val.none
  | _ => Val.none

/-- one side of `its_decompose`: `i = 0` the reactant graph, `i = 1` the product graph. -/
def sideNode (i : Nat) (p : Nat × Attrs) : Option (Nat × Attrs) :=
  match Dict.get? p.2 "typesGH" with
  | some (.tup [g, h]) =>
    let row := if i = 0 then g else h
    if i ≠ 0 ∧ row = .tup [] then none
    else some (p.1, [("element", tupGet row 0), ("aromatic", tupGet row 1), ("hcount", tupGet row 2),
                     ("charge", tupGet row 3), ("atom_map", .num (2 * (p.1 : Int)))])
  | _ => none

def sideEdge (i : Nat) (e : Nat × Nat × Attrs) : Option (Nat × Nat × Attrs) :=
  match Dict.get? e.2.2 "order" with
  | some (.tup [.num a, .num b]) =>
    let o := if i = 0 then a else b
    if o > 0 then some (e.1, e.2.1, [("order", .num o)]) else none
  | _ => none

def side (i : Nat) (I : LGraph) : LGraph :=
  { nodes := I.nodes.filterMap (sideNode i), edges := I.edges.filterMap (sideEdge i) }

/-- `its_decompose(its)`. -/
def decompose (I : LGraph) : LGraph × LGraph := (side 0 I, side 1 I)

def rcKeys : List String := ["element", "charge", "typesGH", "atom_map"]

/-- `{k: d[k] for k in keys if k in d}`. -/
def pick (a : Attrs) (keys : List String) : Attrs :=
  keys.filterMap fun k => (Dict.get? a k).map fun v => (k, v)

def ensureNode (I rc : LGraph) (n : Nat) : LGraph :=
  if rc.hasNode n then rc else { rc with nodes := rc.nodes ++ [(n, pick (I.attrs n) rcKeys)] }

def hhFallback : Val :=
  .tup [.tup [.str "H", .bool false, .num 0, .num 0, .tup []], .tup [.str "*", .bool false, .num 0, .num 0, .tup []]]

def ensureNodeHH (I rc : LGraph) (n : Nat) : LGraph :=
  if rc.hasNode n then rc
  else
    let a := I.attrs n
    let a' := if Dict.contains a "typesGH" then a else Dict.set a "typesGH" hhFallback
    { rc with nodes := rc.nodes ++ [(n, Dict.set (pick a' rcKeys) "typesGH" (Attrs.get a' "typesGH"))] }

/-- `isinstance(std, (int, float)) and std != 0`. -/
def changedStd (a : Attrs) : Bool :=
  match Attrs.get a "standard_order" with
  | .num h => h ≠ 0
  | _ => false

def rcEdgeAttrs (a : Attrs) : Attrs :=
  [("order", Attrs.get a "order"), ("standard_order", Attrs.get a "standard_order"),
   ("is_mtg", Dict.getD a "is_mtg" (.bool false))]

def isHNode (I : LGraph) (n : Nat) : Bool := Attrs.get (I.attrs n) "element" = .str "H"

/-- `get_rc(ITS)`: bonds whose `standard_order` is a non-zero number, then H–H bonds. -/
def getRc (I : LGraph) : LGraph :=
  let rc1 := I.edges.foldl (fun rc e =>
    if changedStd e.2.2 then addEdge (ensureNode I (ensureNode I rc e.1) e.2.1) e.1 e.2.1 (rcEdgeAttrs e.2.2) else rc) {}
  I.edges.foldl (fun rc e =>
    if isHNode I e.1 && isHNode I e.2.1 then
      let rc' := ensureNodeHH I (ensureNodeHH I rc e.1) e.2.1
      if rc'.hasEdge e.1 e.2.1 then rc' else addEdge rc' e.1 e.2.1 (rcEdgeAttrs e.2.2)
    else rc) rc1

def defaultRow : Val := .tup [.str "*", .bool false, .num 0, .num 0, .tup [.str "", .str ""]]

/-- `tuple(G.nodes[n].get(attr, default) if n in G else default for attr in node_attrs)`. -/
def nodeRow (g : LGraph) (n : Nat) : Val :=
  if g.hasNode n then
    let a := g.attrs n
    .tup [Dict.getD a "element" (.str "*"), Dict.getD a "aromatic" (.bool false), Dict.getD a "hcount" (.num 0),
          Dict.getD a "charge" (.num 0), Dict.getD a "neighbors" (.tup [.str "", .str ""])]
  else defaultRow

def subVal (x y : Val) : Val :=
  match x, y with
  | .num a, .num b => .num (a - b)
  | _, _ => Val.none

/-- `G[u][v].get("order", 0.0) if G.has_edge(u, v) else 0.0`. -/
def orderIn (g : LGraph) (u v : Nat) : Val :=
  match g.edge? u v with
  | some a => Dict.getD a "order" (.num 0)
  | none => .num 0

def itsNodeAttrs (G H : LGraph) (n : Nat) (a : Attrs) : Attrs :=
  let rg := nodeRow G n
  let a1 := Dict.set a "typesGH" (.tup [rg, nodeRow H n])
  let a2 := Dict.set a1 "element" (tupGet rg 0)
  let a3 := Dict.set a2 "aromatic" (tupGet rg 1)
  let a4 := Dict.set a3 "hcount" (tupGet rg 2)
  let a5 := Dict.set a4 "charge" (tupGet rg 3)
  Dict.set a5 "neighbors" (tupGet rg 4)

def itsEdge (G H : LGraph) (u v : Nat) : Nat × Nat × Attrs :=
  (u, v, [("order", .tup [orderIn G u v, orderIn H u v]), ("standard_order", subVal (orderIn G u v) (orderIn H u v))])

/-- `ITSConstruction().ITSGraph(G, H)`.  The node order of the nodes missing from the base graph
and the orientation of the edges come from Python `set` iteration in the code; nothing that is
compared depends on them (the driver sorts). -/
def construct (G H : LGraph) : LGraph :=
  let base := if G.nodes.length ≥ H.nodes.length then G else H
  let extra := ((G.ids ++ H.ids).filter fun n => !base.hasNode n).eraseDups
  let nodes0 := base.nodes ++ extra.map fun n => (n, if G.hasNode n then G.attrs n else H.attrs n)
  { nodes := nodes0.map fun p => (p.1, itsNodeAttrs G H p.1 p.2)
    edges := G.edges.map (fun e => itsEdge G H e.1 e.2.1) ++
             (H.edges.filter fun e => !G.hasEdge e.1 e.2.1).map fun e => itsEdge G H e.1 e.2.1 }

/-! ## Writer -/

/-- `node[1].get("element", "X")` (a string). -/
def elemOf (a : Attrs) : List Char :=
  match Dict.get? a "element" with
  | some (.str s) => s.toList
  | _ => ['X']

/-- `node[1].get("charge", 0)` (an integer). -/
def chargeOf (a : Attrs) : Int :=
  match Dict.get? a "charge" with
  | some (.num h) => h / 2
  | _ => 0

def nodeLabel (a : Attrs) : List Char := render (elemOf a) (chargeOf a)

/-- `edge[2].get("order", 1)`. -/
def edgeOrderVal (a : Attrs) : Val := Dict.getD a "order" (.num 2)

/-- `_find_changed_nodes(L, R, ["charge"])`. -/
def findChanged (L R : LGraph) : List Nat :=
  L.ids.filter fun n => R.hasNode n && decide (Attrs.get (L.attrs n) "charge" ≠ Attrs.get (R.attrs n) "charge")

def edgeItem (e : Nat × Nat × Attrs) : Item := .edge e.1 e.2.1 (orderLabel (edgeOrderVal e.2.2))
def nodeItem (p : Nat × Attrs) : Item := .node p.1 (nodeLabel p.2)

/-- the `left` / `right` section: all edges, then the changed nodes. -/
def sideItems (g : LGraph) (changed : List Nat) : List Item :=
  g.edges.map edgeItem ++ (g.nodes.filter fun p => changed.contains p.1).map nodeItem

/-- the `context` section (`explicit_hydrogen=False`): the unchanged nodes. -/
def ctxItems (K : LGraph) (changed : List Nat) : List Item :=
  (K.nodes.filter fun p => !changed.contains p.1).map nodeItem

/-- `index_mapping = {old: new for new, old in enumerate(L.nodes(), 1)}` applied with
`mapping.get(n, n)`. -/
def indexMap (L : LGraph) (v : Nat) : Nat := if L.hasNode v then L.ids.idxOf v + 1 else v

/-- `NXToGML.transform((L, R, K), reindex=…, explicit_hydrogen=False)`. -/
def writeRule (reindex : Bool) (L R K : LGraph) : Rule :=
  let f : Nat → Nat := if reindex then indexMap L else id
  let L' := L.relabel f
  let R' := R.relabel f
  let K' := K.relabel f
  let ch := findChanged L' R'
  { left := sideItems L' ch, context := ctxItems K' ch, right := sideItems R' ch }

/-- `its_to_gml(its, core, reindex)` with the F8 repair. -/
def itsToGml (core reindex : Bool) (I : LGraph) : Rule :=
  let I' := if core then getRc I else I
  writeRule reindex (decompose I').1 (decompose I').2 I'

/-- `smart_to_gml` after RDKit has turned the reaction string into the two mapped graphs. -/
def smartToGml (core reindex : Bool) (r p : LGraph) : Rule :=
  let I := construct r p
  if core then writeRule reindex (decompose (getRc I)).1 (decompose (getRc I)).2 (getRc I)
  else writeRule reindex r p I

/-! ## Reader -/

def nodeAttrsOf (id : Nat) (label : List Char) : Attrs :=
  [("element", .str (String.ofList (parseLabel label).1)), ("charge", .num (2 * (parseLabel label).2)),
   ("atom_map", .num (2 * (id : Int))), ("hcount", .num 0)]

/-- `GMLToNX._parse_element` on one item. -/
def parseItem (g : LGraph) : Item → LGraph
  | .node id label => addNode g id (nodeAttrsOf id label)
  | .edge s t label => addEdge g s t [("order", labelOrder label)]

def readSection (items : List Item) : LGraph := items.foldl parseItem {}

/-- `_synchronize_nodes_and_edges` for one of the two sides. -/
def syncSide (sd ctx : LGraph) : LGraph :=
  let s1 := ctx.nodes.foldl (fun s p => addNode s p.1 p.2) sd
  ctx.edges.foldl (fun s e => if s.hasEdge e.1 e.2.1 then s else addEdge s e.1 e.2.1 e.2.2) s1

def readLeft (r : Rule) : LGraph := syncSide (readSection r.left) (readSection r.context)
def readRight (r : Rule) : LGraph := syncSide (readSection r.right) (readSection r.context)

/-- `gml_to_its`: `GMLToNX(gml).transform()[2]`. -/
def gmlToIts (r : Rule) : LGraph := construct (readLeft r) (readRight r)

/-! ## What a rule *is* for the property: atoms, charges, (before, after) bond orders -/

/-- (element before, charge before, element after, charge after) of an ITS node. -/
def nodeView (I : LGraph) (n : Nat) : Val :=
  let t := Attrs.get (I.attrs n) "typesGH"
  .tup [tupGet (tupGet t 0) 0, tupGet (tupGet t 0) 3, tupGet (tupGet t 1) 0, tupGet (tupGet t 1) 3]

/-- the (before, after) order pair of the bond `u–v`, if any. -/
def edgeView (I : LGraph) (u v : Nat) : Option Val := (I.edge? u v).map fun a => Attrs.get a "order"

/-- Same rule: same atoms with the same element and charges on both sides, same bonds with the
same (before, after) orders. -/
def RuleEq (I J : LGraph) : Prop :=
  (∀ n, n ∈ I.ids ↔ n ∈ J.ids) ∧ (∀ n ∈ J.ids, nodeView I n = nodeView J n) ∧
  ∀ u v, edgeView I u v = edgeView J u v

/-- The rule as a plain labelled graph (node label = `nodeView`, edge label = order pair), on which
"equivalent rules" is label-preserving isomorphism (`match.iso` with keys `v` / `o`). -/
def viewGraph (I : LGraph) : LGraph :=
  { nodes := I.nodes.map fun p => (p.1, [("v", nodeView I p.1)])
    edges := I.edges.map fun e => (e.1, e.2.1, [("o", Attrs.get e.2.2 "order")]) }

/-- decidable form of `RuleEq` for the driver (`spec.gml.ruleEq`). -/
def ruleEqb (I J : LGraph) : Bool :=
  I.ids.all (fun n => J.ids.contains n) && J.ids.all (fun n => I.ids.contains n) &&
  J.ids.all (fun n => nodeView I n = nodeView J n) &&
  (I.ids ++ J.ids).all fun u => (I.ids ++ J.ids).all fun v => edgeView I u v = edgeView J u v

/-! ## Shape of an ITS graph on which the writer is defined -/

def stdOrder (h : Int) : Bool := h = 0 || h = 2 || h = 3 || h = 4 || h = 6

/-- A node of an ITS graph as `ITSGraph` / `get_rc` leave it: `typesGH` is a pair of rows
`(element, aromatic, hcount, charge, neighbors)` with the same element string on both sides and
integer charges, and `element` / `charge` repeat the reactant side. -/
def nodeShape (a : Attrs) : Bool :=
  match Dict.get? a "typesGH" with
  | some (.tup [.tup [.str e, _, _, .num c, _], .tup [.str e', _, _, .num c', _]]) =>
    e = e' && decide (alpha e.toList) && c % 2 = 0 && c' % 2 = 0 &&
    Dict.get? a "element" = some (.str e) && Dict.get? a "charge" = some (.num c)
  | _ => false

def edgeShape (a : Attrs) : Bool :=
  match Dict.get? a "order" with
  | some (.tup [.num x, .num y]) => stdOrder x && stdOrder y && !(x = 0 && y = 0)
  | _ => false

def ItsShape (I : LGraph) : Prop :=
  I.WF ∧ (∀ p ∈ I.nodes, nodeShape p.2 = true) ∧ (∀ e ∈ I.edges, edgeShape e.2.2 = true)
instance (I : LGraph) : Decidable (ItsShape I) := by unfold ItsShape; infer_instance

/-! ## Text layer (executable; tied to the code by the correspondence only) -/

def itemLine : Item → String
  | .node id l => s!"      node [ id {id} label \"{String.ofList l}\" ]\n"
  | .edge s t l => s!"      edge [ source {s} target {t} label \"{String.ofList l}\" ]\n"

def sectionText (name : String) (items : List Item) : String :=
  s!"   {name} [\n" ++ String.join (items.map itemLine) ++ "   ]\n"

/-- `NXToGML._rule_grammar`. -/
def Rule.text (r : Rule) (ruleName : String) : String :=
  "rule [\n" ++ s!"   ruleID \"{ruleName}\"\n" ++ sectionText "left" r.left ++
  sectionText "context" r.context ++ sectionText "right" r.right ++ "]"

def isWs (c : Char) : Bool := c = ' ' || c = '\t' || c = '\r' || c = '\n'

/-- `str.split()` on whitespace. -/
def splitWs (cs : List Char) : List (List Char) :=
  let rec go : List Char → List Char → List (List Char) → List (List Char)
    | [], cur, acc => (if cur = [] then acc else cur.reverse :: acc).reverse
    | c :: rest, cur, acc =>
      if isWs c then go rest [] (if cur = [] then acc else cur.reverse :: acc) else go rest (c :: cur) acc
  go cs [] []

def isInfix (pat s : List Char) : Bool :=
  match s with
  | [] => pat = []
  | _ :: t => pat.isPrefixOf s || isInfix pat t

def stripQuotes (l : List Char) : List Char :=
  ((l.dropWhile (· = '"')).reverse.dropWhile (· = '"')).reverse

def tokenAfter (toks : List (List Char)) (key : String) : Option (List Char) :=
  match toks.dropWhile (· ≠ key.toList) with
  | _ :: v :: _ => some v
  | _ => none

def natOfToken (t : List Char) : Option Nat := if t ≠ [] ∧ t.all Char.isDigit then some (fromDec t) else none

/-- `_parse_element` on the tokens of one line. -/
def lineItem (line : List Char) : Option Item :=
  let toks := splitWs line
  if isInfix "node".toList line then do
    let id ← (tokenAfter toks "id").bind natOfToken
    let lab ← tokenAfter toks "label"
    pure (.node id (stripQuotes lab))
  else if isInfix "edge".toList line then do
    let s ← (tokenAfter toks "source").bind natOfToken
    let t ← (tokenAfter toks "target").bind natOfToken
    let lab ← tokenAfter toks "label"
    pure (.edge s t (stripQuotes lab))
  else none

def stripWs (l : List Char) : List Char := ((l.dropWhile isWs).reverse.dropWhile isWs).reverse

/-- the line loop of `GMLToNX.transform`; `none` when a node/edge line cannot be parsed or
appears outside a section (the code raises there). -/
def parseText (text : String) : Option Rule :=
  let lines := (text.splitOn "\n").map fun l => stripWs l.toList
  let step (st : Option (String × Rule)) (line : List Char) : Option (String × Rule) := do
    let (sec, r) ← st
    if "rule".toList.isPrefixOf line || line = [']'] then pure (sec, r)
    else if ["left", "context", "right"].any (fun s => isInfix s.toList line) then
      pure (String.ofList (stripWs (line.takeWhile (· ≠ '['))), r)
    else if "node".toList.isPrefixOf line || "edge".toList.isPrefixOf line then do
      let it ← lineItem line
      if sec = "left" then pure (sec, { r with left := r.left ++ [it] })
      else if sec = "context" then pure (sec, { r with context := r.context ++ [it] })
      else if sec = "right" then pure (sec, { r with right := r.right ++ [it] })
      else none
    else pure (sec, r)
  (lines.foldl step (some ("", { left := [], context := [], right := [] }))).map (·.2)

end SynKit.Gml

import SynKitModel.Basic
/-!
# Attribute-dict graphs (shared by C01–C13, C18)

A NetworkX graph as SynKit uses it: nodes and edges in insertion order, each with an
attribute dict.  Attribute values are Python values: `None`, numbers, strings, booleans and
tuples/lists of values.  Numbers travel in half-units (`num h` is the number `h/2`), so that the
bond orders 1, 1.5, 2, 3 and their sums and differences are exact and `1 == 1.0` as in Python.
-/
namespace SynKit

inductive Val
  | none
  | num (h : Int)
  | str (s : String)
  | bool (b : Bool)
  | tup (xs : List Val)
deriving Repr, Inhabited

mutual
def Val.decEq : (a b : Val) → Decidable (a = b)
  | .none, .none => isTrue rfl
  | .num a, .num b => if h : a = b then isTrue (by rw [h]) else isFalse (by intro e; cases e; exact h rfl)
  | .str a, .str b => if h : a = b then isTrue (by rw [h]) else isFalse (by intro e; cases e; exact h rfl)
  | .bool a, .bool b => if h : a = b then isTrue (by rw [h]) else isFalse (by intro e; cases e; exact h rfl)
  | .tup as, .tup bs =>
    match Val.decEqList as bs with
    | isTrue h => isTrue (by rw [h])
    | isFalse h => isFalse (by intro e; cases e; exact h rfl)
  | .none, .num _ => isFalse (by intro e; cases e)
  | .none, .str _ => isFalse (by intro e; cases e)
  | .none, .bool _ => isFalse (by intro e; cases e)
  | .none, .tup _ => isFalse (by intro e; cases e)
  | .num _, .none => isFalse (by intro e; cases e)
  | .num _, .str _ => isFalse (by intro e; cases e)
  | .num _, .bool _ => isFalse (by intro e; cases e)
  | .num _, .tup _ => isFalse (by intro e; cases e)
  | .str _, .none => isFalse (by intro e; cases e)
  | .str _, .num _ => isFalse (by intro e; cases e)
  | .str _, .bool _ => isFalse (by intro e; cases e)
  | .str _, .tup _ => isFalse (by intro e; cases e)
  | .bool _, .none => isFalse (by intro e; cases e)
  | .bool _, .num _ => isFalse (by intro e; cases e)
  | .bool _, .str _ => isFalse (by intro e; cases e)
  | .bool _, .tup _ => isFalse (by intro e; cases e)
  | .tup _, .none => isFalse (by intro e; cases e)
  | .tup _, .num _ => isFalse (by intro e; cases e)
  | .tup _, .str _ => isFalse (by intro e; cases e)
  | .tup _, .bool _ => isFalse (by intro e; cases e)
def Val.decEqList : (as bs : List Val) → Decidable (as = bs)
  | [], [] => isTrue rfl
  | [], _ :: _ => isFalse (by intro e; cases e)
  | _ :: _, [] => isFalse (by intro e; cases e)
  | a :: as, b :: bs =>
    match Val.decEq a b, Val.decEqList as bs with
    | isTrue h1, isTrue h2 => isTrue (by rw [h1, h2])
    | isFalse h1, _ => isFalse (by intro e; cases e; exact h1 rfl)
    | _, isFalse h2 => isFalse (by intro e; cases e; exact h2 rfl)
end

instance : DecidableEq Val := Val.decEq

abbrev Attrs := Dict Val

/-- Python `d.get(k)`: an absent key reads as `None`. -/
def Attrs.get (a : Attrs) (k : String) : Val := Dict.getD a k Val.none

structure LGraph where
  nodes : List (Nat × Attrs) := []
  edges : List (Nat × Nat × Attrs) := []
deriving Repr, Inhabited, DecidableEq

namespace LGraph

def ids (g : LGraph) : List Nat := g.nodes.map (·.1)

/-- Attribute dict of a node (`G.nodes[v]`), empty when the node is absent. -/
def attrs (g : LGraph) (v : Nat) : Attrs :=
  match g.nodes.find? (·.1 = v) with
  | some p => p.2
  | none => []

def hasNode (g : LGraph) (v : Nat) : Bool := g.ids.contains v

/-- Undirected edge lookup (`G.edges[u, v]`). -/
def edge? (g : LGraph) (u v : Nat) : Option Attrs :=
  (g.edges.find? fun e => (e.1 = u ∧ e.2.1 = v) ∨ (e.1 = v ∧ e.2.1 = u)).map (·.2.2)

def hasEdge (g : LGraph) (u v : Nat) : Bool := (g.edge? u v).isSome

/-- Directed edge lookup (for `DiGraph` views). -/
def arc? (g : LGraph) (u v : Nat) : Option Attrs :=
  (g.edges.find? fun e => e.1 = u ∧ e.2.1 = v).map (·.2.2)

/-- Neighbours in the undirected reading, in edge order. -/
def neighbors (g : LGraph) (v : Nat) : List Nat :=
  g.edges.filterMap fun e => if e.1 = v then some e.2.1 else if e.2.1 = v then some e.1 else Option.none

/-- Relabel node ids by `f` (NetworkX `relabel_nodes`, order kept). -/
def relabel (g : LGraph) (f : Nat → Nat) : LGraph :=
  { nodes := g.nodes.map fun p => (f p.1, p.2)
    edges := g.edges.map fun e => (f e.1, f e.2.1, e.2.2) }

/-- Well-formedness: node ids distinct, edges join existing distinct nodes, no parallel edges
(undirected reading). -/
def WF (g : LGraph) : Prop :=
  g.ids.Nodup ∧
  (∀ e ∈ g.edges, e.1 ∈ g.ids ∧ e.2.1 ∈ g.ids ∧ e.1 ≠ e.2.1) ∧
  (g.edges.map fun e => (min e.1 e.2.1, max e.1 e.2.1)).Nodup

instance (g : LGraph) : Decidable g.WF := by unfold WF; infer_instance

end LGraph
end SynKit

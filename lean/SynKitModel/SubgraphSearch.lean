import SynKitModel.Match
import SynKitModel.GraphAlg
/-!
# C06 — `SubgraphSearchEngine.find_subgraph_mappings` (synkit/Graph/Matcher/subgraph_matcher.py)

The three strategies as coded (with the repair of DESIGN §6 F9: `max_results` no longer cuts the
per-component embedding lists).  NetworkX VF2 is replaced by the proven enumerator `allMonos`
(its enumeration *order* is not part of the contract, see the harness gates).  A mapping `dict`
is modelled as the list of its items in the pattern's node order (`normalize`).

Python conventions kept: `max_results` falsy (`None`/`0`) means unlimited — here `maxRes = 0`;
`threshold=None` means `DEFAULT_THRESHOLD`.
-/
namespace SynKit.SubgraphSearch
open SynKit.Match SynKit.GraphAlg

inductive Strategy | all | comp | bt
deriving Repr, DecidableEq

def DEFAULT_THRESHOLD : Nat := 5000

structure Cfg where
  strategy : Strategy := .comp
  /-- `max_results`; `0` = `None` = unlimited (Python truthiness). -/
  maxRes : Nat := 0
  /-- `strict_cc_count` -/
  strict : Bool := true
  /-- `threshold`; `none` = `DEFAULT_THRESHOLD`. -/
  threshold : Option Nat := none
  preFilter : Bool := false
deriving Repr

def Cfg.thr (c : Cfg) : Nat := c.threshold.getD DEFAULT_THRESHOLD

/-! ## graph helpers -/

def endpoints (g : LGraph) : List (Nat × Nat) := g.edges.map fun e => (e.1, e.2.1)

/-- `nx.connected_components(g)` (order: first node of each component in node order). -/
def comps (g : LGraph) : List (List Nat) := components g.ids (endpoints g)

/-- `g.subgraph(c).copy()`. -/
def sub (g : LGraph) (c : List Nat) : LGraph :=
  { nodes := g.nodes.filter fun n => c.contains n.1
    edges := g.edges.filter fun e => c.contains e.1 && c.contains e.2.1 }

/-- `g.degree(v)` for a graph without self-loops. -/
def degree (g : LGraph) (v : Nat) : Nat := (g.neighbors v).length

/-! ## `_quick_pre_filter` -/

/-- Loop over the pattern nodes carrying `estimate`; `true` = "give up" (returns `[]`). -/
def quickLoop (sel : Sel) (H P : LGraph) (thr : Nat) : List (Nat × Attrs) → Nat → Bool
  | [], _ => false
  | (p, pa) :: rest, estimate =>
    let count := (H.nodes.filter fun ha => nodeOk sel ha.2 pa && decide (degree H ha.1 ≥ degree P p)).length
    if count = 0 then true
    else
      let estimate := estimate * count
      if estimate > thr * 10000 then true else quickLoop sel H P thr rest estimate

def quickPreFilter (sel : Sel) (H P : LGraph) (thr : Nat) : Bool := quickLoop sel H P thr P.nodes 1

/-! ## `_find_all_subgraph_mappings` -/

/-- The result loop: append, then `max_results` break, then threshold abort. -/
def collect {α : Type} (maxRes thr : Nat) : List α → List α → List α
  | [], acc => acc.reverse
  | x :: xs, acc =>
    let acc' := x :: acc
    if maxRes ≠ 0 ∧ acc'.length ≥ maxRes then acc'.reverse
    else if acc'.length > thr then []
    else collect maxRes thr xs acc'

def findAll (sel : Sel) (H P : LGraph) (maxRes thr : Nat) : List Mapping :=
  collect maxRes thr (allMonos sel H P) []

/-! ## `_find_component_aware_subgraph_mappings` -/

/-- Embeddings of one pattern component `pc` into every candidate host component
(`cand = [i | |hc_i| ≥ |pc|]`), tagged with the host component index.  `none` = abort
(threshold exceeded ⇒ the whole search returns `[]`). -/
def perComponent (sel : Sel) (hostCcs : List LGraph) (pc : LGraph) : List (Nat × Mapping) :=
  (hostCcs.zipIdx.filter fun hi => hi.1.nodes.length ≥ pc.nodes.length).flatMap fun hi =>
    (allMonos sel hi.1 pc).map fun m => (hi.2, m)

/-- Stable insertion: after every element whose key is ≤ the new key (Python `sorted` is stable). -/
def insertByLen {α : Type} (x : List α) : List (List α) → List (List α)
  | [] => [x]
  | y :: ys => if x.length < y.length then x :: y :: ys else y :: insertByLen x ys

/-- `sorted(…, key=len)` — stable. -/
def sortByLen {α : Type} (xs : List (List α)) : List (List α) :=
  xs.foldl (fun acc x => insertByLen x acc) []

/-- The dict `acc` as a mapping in the pattern's node order. -/
def normalize (P : LGraph) (acc : Mapping) : Mapping :=
  P.ids.filterMap fun p => (acc.get? p).map fun h => (p, h)

/-- `max_results and len(results) >= max_results`, or `len(results) > threshold`. -/
def stop (maxRes thr : Nat) (results : List Mapping) : Bool :=
  (maxRes ≠ 0 && results.length ≥ maxRes) || results.length > thr

/-- `hi in used or any(p in acc for p in m)` -/
def skip (used : List Nat) (acc : Mapping) (hi : Nat) (m : Mapping) : Bool :=
  used.contains hi || m.any fun ph => acc.any fun qh => qh.1 = ph.1

/-- The `for hi, m in ordered[level]` loop; `next` is `backtrack(level + 1, ·)`. -/
def btItems (maxRes thr : Nat) (next : List Nat → Mapping → List Mapping → List Mapping)
    (used : List Nat) (acc : Mapping) : List (Nat × Mapping) → List Mapping → List Mapping
  | [], results => results
  | (hi, m) :: items, results =>
    if skip used acc hi m then btItems maxRes thr next used acc items results
    else
      let results' := next (hi :: used) (acc ++ m) results
      if stop maxRes thr results' then results' else btItems maxRes thr next used acc items results'

/-- `backtrack(level, acc)` with the remaining levels as argument; returns the new `results`. -/
def btLevel (P : LGraph) (maxRes thr : Nat) : List (List (Nat × Mapping)) → List Nat → Mapping → List Mapping → List Mapping
  | [], _, acc, results =>
    if stop maxRes thr results then results else results ++ [normalize P acc]
  | lvl :: rest, used, acc, results =>
    if stop maxRes thr results then results
    else btItems maxRes thr (btLevel P maxRes thr rest) used acc lvl results

def findComp (sel : Sel) (H P : LGraph) (maxRes : Nat) (strict : Bool) (thr : Nat) : List Mapping :=
  let hostCcs := (comps H).map (sub H)
  let patCcs := (comps P).map (sub P)
  let hcc := hostCcs.length
  let pcc := patCcs.length
  if pcc = 0 then [[]]
  else if hcc < pcc then findAll sel H P maxRes thr
  else if hcc > pcc ∧ strict then []
  else
    let perCc := patCcs.map (perComponent sel hostCcs)
    -- `if not cand: return []` and `if not maps: return []` coincide: no candidate ⇒ no maps
    if perCc.any (fun maps => maps.isEmpty) then []
    else if perCc.any (fun maps => maps.length > thr) then []
    else btLevel P maxRes thr (sortByLen perCc) [] [] []

/-! ## `_find_bt_subgraph_mappings` -/

def findBt (sel : Sel) (H P : LGraph) (maxRes : Nat) (strict : Bool) (thr : Nat) : List Mapping :=
  let primary := findComp sel H P maxRes strict thr
  if primary.isEmpty then findAll sel H P maxRes thr else primary

/-! ## `find_subgraph_mappings` -/

def dispatch (cfg : Cfg) (sel : Sel) (H P : LGraph) : List Mapping :=
  match cfg.strategy with
  | .all => findAll sel H P cfg.maxRes cfg.thr
  | .comp => findComp sel H P cfg.maxRes cfg.strict cfg.thr
  | .bt => findBt sel H P cfg.maxRes cfg.strict cfg.thr

def search (cfg : Cfg) (sel : Sel) (H P : LGraph) : List Mapping :=
  if cfg.preFilter && quickPreFilter sel H P cfg.thr then []
  else
    let results := dispatch cfg sel H P
    if results.length > cfg.thr then [] else results

end SynKit.SubgraphSearch

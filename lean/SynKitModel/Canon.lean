import SynKitModel.Match
/-!
# Model of graph canonicalisation (C08)

Mirrors `synkit/Graph/canon_graph.py` (`GraphCanonicaliser`: `_canon_generic`, `_canon_wl`,
`_canon_nauty`, `canon_morgan`, `_serialise`, `_default_node_key`, `_default_edge_key`,
`canonical_signature`; wrappers `CanonicalGraph`, `SynGraph`, `SynRule`).

* Every back-end builds its canonical graph the same way: it computes an *order* of the nodes
  and relabels the `i`-th node of the order to `i+1`, inserting nodes in that order and edges
  sorted by the (sorted) pair of new ids, all attribute dicts carried over.  That is `canonBy`.
  How the order is computed (attribute sort, WL colours, Morgan products, the
  individualisation-refinement search) is an *external parameter*: every theorem about `canonBy`
  holds for every order, so none of the hashing / refinement code is trusted.
* `serialise` is `_serialise` before string formatting: nodes **stably** sorted by the attribute
  key only (ties keep the graph's insertion order — the tie rule), each printed with its id;
  edges sorted by `(sorted (u, v), order, standard_order)`, each printed with the pair as the
  graph iterates it and the key.
* `canonBrute` is the specification-level exact canonical form: the least serialisation over
  all node orders.
-/
namespace SynKit.Canon
open SynKit SynKit.Match

/-! ## Python `sorted` (stable), permutations, minimum -/

/-- Insert `x` in front of the first element that is not smaller than it. -/
def insertBy {α : Type} (lt : α → α → Bool) (x : α) : List α → List α
  | [] => [x]
  | y :: ys => if lt y x then y :: insertBy lt x ys else x :: y :: ys

/-- Stable sort (`sorted(xs, key=…)` with `lt a b := key a < key b`). -/
def sortBy {α : Type} (lt : α → α → Bool) (xs : List α) : List α := xs.foldr (insertBy lt) []

def insertions {α : Type} (x : α) : List α → List (List α)
  | [] => [[x]]
  | y :: ys => (x :: y :: ys) :: (insertions x ys).map (y :: ·)

/-- All orders of a list. -/
def perms {α : Type} : List α → List (List α)
  | [] => [[]]
  | x :: xs => (perms xs).flatMap (insertions x)

/-- First least element of `x :: xs`. -/
def minBy {α : Type} (lt : α → α → Bool) (x : α) (xs : List α) : α :=
  xs.foldl (fun best y => if lt y best then y else best) x

/-! ## Order on attribute values (Python `<` on values of one type) -/

def Val.rank : Val → Nat
  | .none => 0 | .bool _ => 1 | .num _ => 2 | .str _ => 3 | .tup _ => 4

mutual
/-- Three-way comparison of values of the same Python type (numbers, strings, booleans,
tuples); values of different types are ordered by type (Python would raise; the generators
never mix types under one attribute). -/
def Val.cmp : Val → Val → Ordering
  | .num a, .num b => compare a b
  | .str a, .str b => compare a b
  | .bool a, .bool b => compare a b
  | .tup as, .tup bs => Val.cmpList as bs
  | a, b => compare (Val.rank a) (Val.rank b)
/-- Lexicographic comparison (Python tuple comparison). -/
def Val.cmpList : List Val → List Val → Ordering
  | [], [] => .eq
  | [], _ :: _ => .lt
  | _ :: _, [] => .gt
  | a :: as, b :: bs =>
    match Val.cmp a b with
    | .lt => .lt
    | .gt => .gt
    | .eq => Val.cmpList as bs
end

def Val.lt (a b : Val) : Bool := Val.cmp a b == .lt
def Val.ltList (a b : List Val) : Bool := Val.cmpList a b == .lt

/-! ## The attributes the signature covers -/

/-- `data.get(k, dflt)`. -/
def getD (a : Attrs) (k : String) (dflt : Val) : Val := Dict.getD a k dflt

/-- `_default_node_key`: `(element or "", charge or 0, aromatic or False, hcount or 0)`. -/
def nodeKey (a : Attrs) : List Val :=
  [getD a "element" (.str ""), getD a "charge" (.num 0), getD a "aromatic" (.bool false), getD a "hcount" (.num 0)]

/-- The attribute part of `_default_edge_key`: `(order or 0, standard_order or 0)`. -/
def edgeKey (a : Attrs) : List Val := [getD a "order" (.num 0), getD a "standard_order" (.num 0)]

def nodeKeyNames : List String := ["element", "charge", "aromatic", "hcount"]
def edgeKeyNames : List String := ["order", "standard_order"]

/-- Node attribute dict reduced to the covered keys, defaults filled in. -/
def covNodeAttrs (a : Attrs) : Attrs :=
  [("element", getD a "element" (.str "")), ("charge", getD a "charge" (.num 0)),
   ("aromatic", getD a "aromatic" (.bool false)), ("hcount", getD a "hcount" (.num 0))]

def covEdgeAttrs (a : Attrs) : Attrs :=
  [("order", getD a "order" (.num 0)), ("standard_order", getD a "standard_order" (.num 0))]

/-- The graph as the signature sees it: only the covered attributes, with the code's defaults. -/
def cov (g : LGraph) : LGraph :=
  { nodes := g.nodes.map fun p => (p.1, covNodeAttrs p.2)
    edges := g.edges.map fun e => (e.1, e.2.1, covEdgeAttrs e.2.2) }

/-- Isomorphism "on the attributes the signature covers": the shared engine's `IsIso` with this
selection, on `cov G`, `cov H` (equality of hydrogen counts, no host-≥-pattern rule). -/
def covSel : Sel := { nodeKeys := nodeKeyNames, edgeKeys := edgeKeyNames, hcountRule := false }

/-! ## Serialisation (`_serialise` before formatting) -/

/-- Lexicographic `<` on pairs of node ids. -/
def pairLt (a b : Nat × Nat) : Bool := a.1 < b.1 || (a.1 == b.1 && a.2 < b.2)

def upair (u v : Nat) : Nat × Nat := (min u v, max u v)

def nodeLt (x y : Nat × Attrs) : Bool := Val.ltList (nodeKey x.2) (nodeKey y.2)

/-- `_default_edge_key` comparison: the sorted pair first, then order, then standard order. -/
def edgeLt (x y : Nat × Nat × Attrs) : Bool :=
  pairLt (upair x.1 x.2.1) (upair y.1 y.2.1) ||
    (upair x.1 x.2.1 == upair y.1 y.2.1 && Val.ltList (edgeKey x.2.2) (edgeKey y.2.2))

structure Ser where
  /-- `n:key` items in sorted order -/
  nodes : List (Nat × List Val)
  /-- `(u, v):((min, max), order, standard_order)` items in sorted order -/
  edges : List ((Nat × Nat) × (Nat × Nat) × List Val)
deriving DecidableEq, Repr, Inhabited

def serialise (g : LGraph) : Ser :=
  { nodes := (sortBy nodeLt g.nodes).map fun p => (p.1, nodeKey p.2)
    edges := (sortBy edgeLt g.edges).map fun e => ((e.1, e.2.1), upair e.1 e.2.1, edgeKey e.2.2) }

/-! ## Canonical graph for a given node order -/

/-- `mapping[old] = i + 1` for the `i`-th node of the order. -/
def pos (order : List Nat) (v : Nat) : Nat := order.idxOf v + 1

def edgePairLt (x y : Nat × Nat × Attrs) : Bool := pairLt (x.1, x.2.1) (y.1, y.2.1)

/-- Nodes `1..N` inserted in the given order, edges inserted sorted by the sorted pair of new
ids (NetworkX then iterates each edge as `(smaller, larger)`), all attribute dicts kept. -/
def canonBy (order : List Nat) (g : LGraph) : LGraph :=
  { nodes := order.map fun v => (pos order v, g.attrs v)
    edges := sortBy edgePairLt (g.edges.map fun e =>
      (min (pos order e.1) (pos order e.2.1), max (pos order e.1) (pos order e.2.1), e.2.2)) }

/-- The node order `_canon_generic` uses: nodes stably sorted by the attribute key. -/
def genericOrder (g : LGraph) : List Nat := (sortBy nodeLt g.nodes).map (·.1)

/-! ## Faithfulness specification -/

/-- `H` is `G` relabelled by the bijection `m` (pairs old ↦ new, in `G`'s node order) onto
`1..N`, every node and edge attribute dict preserved, adjacency preserved both ways. -/
def IsRelabelling (G H : LGraph) (m : Mapping) : Prop :=
  m.map (·.1) = G.ids ∧
  (m.map (·.2)).Perm (List.range' 1 G.nodes.length) ∧
  H.WF ∧ H.ids.Perm (m.map (·.2)) ∧
  (∀ p ∈ m, H.attrs p.2 = G.attrs p.1) ∧
  (∀ p ∈ m, ∀ q ∈ m, H.edge? p.2 q.2 = G.edge? p.1 q.1)

def isPermOfRange (xs : List Nat) (n : Nat) : Bool :=
  xs.length == n && (List.range' 1 n).all (fun i => xs.contains i)

/-- Executable form of `IsRelabelling` (with the reason of the first failing clause). -/
def checkRelabelling (G H : LGraph) (m : Mapping) : String :=
  if m.map (·.1) ≠ G.ids then "mapping domain is not the node list of the input"
  else if !isPermOfRange (m.map (·.2)) G.nodes.length then "mapping image is not 1..N"
  else if !decide H.WF then "canonical graph is not well formed"
  else if !(H.ids.length == m.length && H.ids.all (fun v => (m.map (·.2)).contains v)) then "canonical node set is not the image"
  else if !(m.all fun p => decide (H.attrs p.2 = G.attrs p.1)) then "node attributes not preserved"
  else if !(m.all fun p => m.all fun q => decide (H.edge? p.2 q.2 = G.edge? p.1 q.1)) then "edges or edge attributes not preserved"
  else "ok"

/-- Extensional equality on the covered attributes (the reading of "same canonical graph"). -/
def covEq (G H : LGraph) : Bool :=
  G.ids.all (fun v => H.ids.contains v) && H.ids.all (fun v => G.ids.contains v) &&
  G.ids.all (fun v => decide (nodeKey (G.attrs v) = nodeKey (H.attrs v))) &&
  G.ids.all (fun u => G.ids.all fun v =>
    decide ((G.edge? u v).map edgeKey = (H.edge? u v).map edgeKey))

/-! ## Order on serialisations and the brute-force canonical form -/

def ltLex {α : Type} (lt : α → α → Bool) : List α → List α → Bool
  | [], [] => false
  | [], _ :: _ => true
  | _ :: _, [] => false
  | a :: as, b :: bs => if lt a b then true else if lt b a then false else ltLex lt as bs

def natLt (a b : Nat) : Bool := a < b

def serNodeLt (a b : Nat × List Val) : Bool :=
  if a.1 < b.1 then true else if b.1 < a.1 then false else Val.ltList a.2 b.2

def serEdgeLt (a b : (Nat × Nat) × (Nat × Nat) × List Val) : Bool :=
  if pairLt a.1 b.1 then true else if pairLt b.1 a.1 then false
  else if pairLt a.2.1 b.2.1 then true else if pairLt b.2.1 a.2.1 then false
  else Val.ltList a.2.2 b.2.2

/-- A total order on serialisations (any total order gives an exact canonical form; Python
compares label strings, which the model does not reproduce). -/
def Ser.lt (a b : Ser) : Bool :=
  if ltLex serNodeLt a.nodes b.nodes then true else if ltLex serNodeLt b.nodes a.nodes then false
  else ltLex serEdgeLt a.edges b.edges

/-- The node order with the least serialisation (first such order in `perms`). -/
def bruteOrder (g : LGraph) : List Nat :=
  minBy (fun o₁ o₂ => Ser.lt (serialise (canonBy o₁ g)) (serialise (canonBy o₂ g))) g.ids (perms g.ids)

/-- Specification-level exact canonical graph. -/
def canonBrute (g : LGraph) : LGraph := canonBy (bruteOrder g) g

/-- Specification-level exact signature (pre-digest). -/
def sigBrute (g : LGraph) : Ser := serialise (canonBrute g)

/-! ## Signatures and value objects

`digest` is SHA-256 (first 32 hex digits): an opaque function parameter. -/

/-- `GraphCanonicaliser.canonical_signature(g)` for a back-end whose node order on `g` is `o`. -/
def signature {D : Type} (digest : Ser → D) (o : List Nat) (g : LGraph) : D :=
  digest (serialise (canonBy o g))

/-- `SynGraph.__eq__`: signatures of the raw graphs are equal. -/
def synGraphEq {D : Type} [DecidableEq D] (digest : Ser → D) (o₁ o₂ : List Nat) (g₁ g₂ : LGraph) : Bool :=
  decide (signature digest o₁ g₁ = signature digest o₂ g₂)

/-- `SynRule.__eq__`: the pairs (left signature, right signature) are equal. -/
def synRuleEq {D : Type} [DecidableEq D] (digest : Ser → D)
    (ol₁ or₁ ol₂ or₂ : List Nat) (l₁ r₁ l₂ r₂ : LGraph) : Bool :=
  decide ((signature digest ol₁ l₁, signature digest or₁ r₁) = (signature digest ol₂ l₂, signature digest or₂ r₂))

/-- `CanonicalGraph.__eq__`: the hash of a wrapper is the signature of its *canonical graph*
(`canon.canonical_signature(self._canonical_graph)`), i.e. the back-end runs a second time, on
the canonical graph, with some order `o'`. -/
def canonicalGraphEq {D : Type} [DecidableEq D] (digest : Ser → D)
    (o₁ o₁' o₂ o₂' : List Nat) (g₁ g₂ : LGraph) : Bool :=
  decide (signature digest o₁' (canonBy o₁ g₁) = signature digest o₂' (canonBy o₂ g₂))

end SynKit.Canon

#!/usr/bin/env python3
"""Regenerates the generated tables of DESIGN.md and seeded/README.md from the recorded data:
   seeds (seeded/*/result.json), anchor coverage (coverage/*.json), mechanical mutants (mutants/*.json).
   Regions are delimited by <!-- NAME:BEGIN --> / <!-- NAME:END -->."""
import json, os, re, subprocess, sys
ROOT = os.path.dirname(os.path.abspath(__file__))


def region(text, name, body):
    b, e = "<!-- %s:BEGIN -->" % name, "<!-- %s:END -->" % name
    if b not in text:
        raise SystemExit("marker %s missing" % name)
    i, j = text.index(b) + len(b), text.index(e)
    return text[:i] + "\n" + body.rstrip("\n") + "\n" + text[j:]


def seeds_short():
    rows = ["| seed | change (abridged) | caught by |", "|---|---|---|"]
    d = os.path.join(ROOT, "seeded")
    for n in sorted(os.listdir(d)):
        mp, rp = os.path.join(d, n, "meta.json"), os.path.join(d, n, "result.json")
        if not os.path.exists(mp):
            continue
        m = json.load(open(mp))
        r = json.load(open(rp)) if os.path.exists(rp) else {}
        if r.get("detected"):
            tier = "quick" if (r.get("quick") or {}).get("exit") == 1 else "thorough"
            c = "%s %s" % (m.get("property"), tier)
        elif str(m.get("status", "")).startswith("superseded"):
            c = "superseded by a repair in /repo (was caught on its base commit; see meta.json)"
        else:
            c = "NOT caught"
        rows.append("| %s | %s | %s |" % (n, str(m.get("summary", ""))[:150].replace("|", "/").replace("\n", " "), c))
    return "\n".join(rows)


def out(cmd):
    return subprocess.run(cmd, cwd=ROOT, capture_output=True, text=True).stdout


def main():
    p = os.path.join(ROOT, "DESIGN.md")
    s = open(p).read()
    s = region(s, "SEEDS_TABLE", seeds_short())
    s = region(s, "COVERAGE_TABLE", out(["./tools_cover.py", "--table"]))
    s = region(s, "MUTANT_TABLE", out(["./tools_mutate.py", "--table"]))
    open(p, "w").write(s)
    p = os.path.join(ROOT, "seeded", "README.md")
    s = open(p).read()
    s = region(s, "SEEDS_FULL", out(["./tools_seed.py", "table"]))
    open(p, "w").write(s)


if __name__ == "__main__":
    main()
